"""
symx.shims -- adaptations that let the unmodified pytenet modules run on dtype=object arrays of Sym.

Nothing in /repo is edited: names are rebound from here (module global `np` of the pytenet modules is
replaced by a forwarding proxy; np.einsum / np.linalg.{qr,svd,norm} / np.vdot are wrapped and forward to
NumPy unless an operand has dtype=object).

LAPACK kernels are replaced by *contract stubs* (fresh symbols + the defining equations as hypotheses):
    qr   : Q (m x k), R (k x n) upper triangular, k = min(m, n);  Q^H Q = I,  Q R = A,  Im R_ii = 0
    svd  : U (m x k), s (k), V (k x n);  U^H U = I,  V V^H = I,  U diag(s) V = A,  s_1 >= ... >= s_k >= 0
    norm : w >= 0,  w^2 = sum |x_i|^2
In concrete mode (all entries constant) the real LAPACK routine is called instead, which validates the
stub interface (shapes, ordering) against the real thing.
"""
import importlib
import itertools
from fractions import Fraction
import numpy as np

from . import engine as E
from .poly import Sym, Atom, S, tosym, pconst, padd, psub, pmul, pneg, SymUnsupported

_orig = dict(einsum=np.einsum, qr=np.linalg.qr, svd=np.linalg.svd, norm=np.linalg.norm, vdot=np.vdot)

STUB_LOG = []          # (kind, shape) per call on the current path; reset by harnesses
FROBENIUS_LEMMA = [False]   # opt-in: add the implied identity sum |a|^2 = sum s^2 to the hypotheses of every SVD stub call
SVD_CALLS = []         # (U, s, V) of every symbolic svd stub call on the current path


def active():
    return E._CUR[0] is not None


ZERO = Sym()      # shared immutable symbolic zero (object arrays allocated by the proxied np.zeros hold it, so that
                  # NumPy ufuncs that dispatch to methods -- np.sqrt, np.conj -- work on every element)


def objzeros(shape):
    a = np.empty(shape, dtype=object)
    a.fill(ZERO)
    return a


def is_concrete_array(a):
    for x in a.reshape(-1):
        if isinstance(x, Sym) and not x.is_const():
            return False
    return True


def to_numeric(a):
    """object array of constants -> float/complex ndarray"""
    flat = []
    cplx = False
    for x in a.reshape(-1):
        if isinstance(x, Sym):
            c = x.cval()
        else:
            c = x
        if isinstance(c, complex):
            cplx = True
        flat.append(c)
    if cplx:
        return np.array([complex(c) for c in flat], dtype=complex).reshape(a.shape)
    return np.array([float(c) for c in flat], dtype=float).reshape(a.shape)


def to_object(a):
    out = np.empty(a.shape, dtype=object)
    for idx in np.ndindex(*a.shape):
        out[idx] = tosym(a[idx])
    return out


def has_complex(a):
    for x in a.reshape(-1):
        if isinstance(x, Sym):
            if x.u is not None:
                return True
        elif isinstance(x, (complex, np.complexfloating)) and complex(x).imag != 0:
            return True
    return False


# ---------------------------------------------------------------------------------------------
# numpy proxy for pytenet modules

def _is_int_dtype(dt):
    if dt is int or dt is bool:
        return True
    try:
        dt = np.dtype(dt)
    except TypeError:
        return False
    return dt != object and (np.issubdtype(dt, np.integer) or dt == bool)


class NPProxy:
    def __init__(self, real):
        self._real = real

    def __getattr__(self, k):
        return getattr(self._real, k)

    def zeros(self, shape, dtype=float, **kw):
        if active() and not _is_int_dtype(dtype):
            return objzeros(shape if isinstance(shape, tuple) else (tuple(shape) if hasattr(shape, '__iter__') else (shape,)))
        return self._real.zeros(shape, dtype=dtype, **kw)

    def identity(self, n, dtype=float, **kw):
        if active():
            a = objzeros((n, n))
            for i in range(n):
                a[i, i] = 1
            return a
        return self._real.identity(n, dtype=dtype, **kw)

    def full(self, shape, fill_value, dtype=None, **kw):
        if active() and isinstance(fill_value, Sym):
            a = np.empty(shape, dtype=object)
            a.fill(fill_value)
            return a
        return self._real.full(shape, fill_value, dtype=dtype, **kw)

    def vdot(self, a, b):
        a = np.asarray(a); b = np.asarray(b)
        if a.dtype == object or b.dtype == object:
            tot = Sym()
            for x, y in zip(a.reshape(-1), b.reshape(-1)):
                tot = tot + S(x).conjugate() * S(y)
            return tot
        return self._real.vdot(a, b)

    def allclose(self, a, b, rtol=1e-05, atol=1e-08, **kw):
        a = np.asarray(a); b = np.asarray(b)
        if a.dtype == object or b.dtype == object:
            ao = np.asarray(a, dtype=object); bo = np.asarray(b, dtype=object)
            if is_concrete_array(ao) and is_concrete_array(bo):
                return self._real.allclose(to_numeric(ao), to_numeric(bo), rtol=rtol, atol=atol, **kw)     # plain numbers: NumPy's own test
            ao, bo = np.broadcast_arrays(ao, bo)
            return all(_sym_isclose(x, y, rtol, atol) for x, y in zip(ao.reshape(-1), bo.reshape(-1)))
        return self._real.allclose(a, b, rtol=rtol, atol=atol, **kw)

    def isclose(self, a, b, rtol=1e-05, atol=1e-08, **kw):
        if not isinstance(a, np.ndarray) and not isinstance(b, np.ndarray) and (isinstance(a, Sym) or isinstance(b, Sym)):
            return _sym_isclose(a, b, rtol, atol)
        a_ = np.asarray(a, dtype=object) if isinstance(a, Sym) else np.asarray(a)
        b_ = np.asarray(b, dtype=object) if isinstance(b, Sym) else np.asarray(b)
        if a_.dtype == object or b_.dtype == object:
            ao, bo = np.broadcast_arrays(np.asarray(a_, dtype=object), np.asarray(b_, dtype=object))
            out = np.empty(ao.shape, dtype=bool)
            for idx in np.ndindex(*ao.shape):
                out[idx] = _sym_isclose(ao[idx], bo[idx], rtol, atol)
            return out
        return self._real.isclose(a, b, rtol=rtol, atol=atol, **kw)


def _sym_isclose(x, y, rtol, atol):
    """NumPy's tolerance test |x - y| <= atol + rtol |y| on symbolic scalars (decided by branching; |.| of a real scalar branches on
    its sign, of a complex scalar goes through the sqrt contract)"""
    from fractions import Fraction
    x = S(x); y = S(y)
    bound = S(Fraction(atol)) + S(Fraction(rtol)) * abs(y) if not y.is_zero() else S(Fraction(atol))
    d = x - y
    if d.is_zero():
        return True
    # exactly equal on this path (e.g. an identity that holds modulo assumed hypotheses)?  then certainly close
    eng = E.current()
    if eng.known(Atom(d.t, '==')) is True and (d.u is None or eng.known(Atom(d.u, '==')) is True):
        return True
    if d.u is None:
        return bool(d <= bound) and bool(-d <= bound)
    return bool(d.abs2() <= bound * bound)


PROXIED = ['qnumber', 'bond_ops', 'mps', 'mpo', 'operation', 'krylov', 'evolution', 'minimization',
           'hamiltonian', 'opgraph', 'opchain', 'optree', 'util']


# ---------------------------------------------------------------------------------------------
# einsum (interleaved calling convention used by pytenet), object loop

def generic_einsum(*args, **kw):
    if not args or isinstance(args[0], str):
        return _orig['einsum'](*args, **kw)
    a = list(args)
    ops = []; subs = []
    while len(a) >= 2:
        ops.append(np.asarray(a[0])); subs.append(tuple(a[1])); a = a[2:]
    out = tuple(a[0]) if a else None
    if all(o.dtype != object for o in ops):
        return _orig['einsum'](*args, **kw)
    if out is None:
        raise SymUnsupported('einsum without explicit output subscripts on object arrays')
    # pairwise contraction through tensordot keeps the Python-level work small
    cur, csub = ops[0], list(subs[0])
    for k_, (o, s) in enumerate(zip(ops[1:], subs[1:])):
        later = set(out)
        for s2 in subs[k_ + 2:]:
            later |= set(s2)
        common = [l for l in csub if l in s]
        contract = [l for l in common if l not in later]
        keep_common = [l for l in common if l in later]
        if keep_common:
            return _einsum_loops(ops, subs, out)
        ax0 = [csub.index(l) for l in contract]; ax1 = [s.index(l) for l in contract]
        cur = np.tensordot(cur, o, axes=(ax0, ax1))
        csub = [l for l in csub if l not in contract] + [l for l in s if l not in contract]
    if len(set(csub)) != len(csub) or set(csub) != set(out):
        return _einsum_loops(ops, subs, out)
    return cur.transpose([csub.index(l) for l in out])


def _einsum_loops(ops, subs, out):
    dims = {}
    for o, s in zip(ops, subs):
        for ax, lab in enumerate(s):
            dims[lab] = o.shape[ax]
    contracted = [l for l in dims if l not in out]
    res = objzeros(tuple(dims[l] for l in out))
    for oidx in np.ndindex(*res.shape):
        env = dict(zip(out, oidx)); acc = 0
        for cidx in np.ndindex(*[dims[l] for l in contracted]):
            env.update(zip(contracted, cidx))
            term = 1
            for o, s in zip(ops, subs):
                v = o[tuple(env[l] for l in s)]
                if not isinstance(v, Sym) and v == 0:
                    term = 0; break
                term = term * v
            acc = acc + term
        res[oidx] = acc
    return res


# ---------------------------------------------------------------------------------------------
# LAPACK contract stubs

def _eq(eng, lhs, rhs, tag):
    d = S(lhs) - S(rhs)
    eng.assume(Atom(d.t, '=='), tag=tag)
    if d.u:
        eng.assume(Atom(d.u, '=='), tag=tag)


def stub_qr(a, mode='reduced'):
    a = np.asarray(a)
    if a.dtype != object:
        return _orig['qr'](a, mode=mode)
    if mode != 'reduced':
        raise SymUnsupported(f'qr mode {mode}')
    eng = E.current()
    m, n = a.shape
    k = min(m, n)
    if eng.concrete or is_concrete_array(a):
        Q, R = _orig['qr'](to_numeric(a), mode='reduced')
        STUB_LOG.append(('qr_lapack', (m, n)))
        return to_object(Q), to_object(R)
    cplx = has_complex(a)
    cid = len(STUB_LOG)
    STUB_LOG.append(('qr', (m, n)))
    Q = np.empty((m, k), dtype=object); R = objzeros((k, n))
    for i in range(m):
        for j in range(k):
            Q[i, j] = eng.csym(f'Q{cid}_{i}{j}', 'stub') if cplx else eng.sym(f'Q{cid}_{i}{j}', 'real', 'stub')
    for i in range(k):
        for j in range(i, n):
            if cplx and j != i:
                R[i, j] = eng.csym(f'R{cid}_{i}{j}', 'stub')
            else:
                R[i, j] = eng.sym(f'R{cid}_{i}{j}', 'real', 'stub')
    for i in range(k):
        for j in range(i, k):
            tot = Sym()
            for l in range(m):
                tot = tot + Q[l, i].conjugate() * Q[l, j]
            _eq(eng, tot, 1 if i == j else 0, 'qr:QhQ=I')
    for i in range(m):
        for j in range(n):
            tot = Sym()
            for l in range(min(k, j + 1)):
                tot = tot + Q[i, l] * R[l, j]
            _eq(eng, tot, a[i, j], 'qr:QR=A')
    return Q, R


def stub_svd(a, full_matrices=True, compute_uv=True, **kw):
    a = np.asarray(a)
    if a.dtype != object:
        return _orig['svd'](a, full_matrices=full_matrices, compute_uv=compute_uv, **kw)
    if full_matrices or not compute_uv:
        raise SymUnsupported('svd stub supports full_matrices=False, compute_uv=True only')
    eng = E.current()
    m, n = a.shape
    k = min(m, n)
    if eng.concrete or is_concrete_array(a):
        U, s, V = _orig['svd'](to_numeric(a), full_matrices=False)
        STUB_LOG.append(('svd_lapack', (m, n)))
        return to_object(U), to_object(s), to_object(V)
    cplx = has_complex(a)
    cid = len(STUB_LOG)
    STUB_LOG.append(('svd', (m, n)))
    mk = (lambda nm: eng.csym(nm, 'stub')) if cplx else (lambda nm: eng.sym(nm, 'real', 'stub'))
    U = np.empty((m, k), dtype=object); V = np.empty((k, n), dtype=object); sv = np.empty(k, dtype=object)
    for i in range(m):
        for j in range(k):
            U[i, j] = mk(f'U{cid}_{i}{j}')
    for i in range(k):
        for j in range(n):
            V[i, j] = mk(f'V{cid}_{i}{j}')
    for i in range(k):
        sv[i] = eng.sym(f'sv{cid}_{i}', 'real', 'stub')
    for i in range(k):
        eng.assume(sv[i] >= 0, tag='svd:s>=0')
        if i + 1 < k:
            eng.assume(sv[i] >= sv[i + 1], tag='svd:order')
            # consequence of s_i >= s_{i+1} >= 0 (monotonicity of squaring on the non-negative reals), registered so that
            # the path solver may multiply it by even-power monomials: s_{i+1}^2 - s_i^2 <= 0
            eng.add_ineq_lemma(psub(pmul(sv[i + 1].t, sv[i + 1].t), pmul(sv[i].t, sv[i].t)))
        for j in range(i, k):
            tu = Sym(); tv = Sym()
            for l in range(m):
                tu = tu + U[l, i].conjugate() * U[l, j]
            for l in range(n):
                tv = tv + V[i, l] * V[j, l].conjugate()
            _eq(eng, tu, 1 if i == j else 0, 'svd:UhU=I')
            _eq(eng, tv, 1 if i == j else 0, 'svd:VVh=I')
    for i in range(m):
        for j in range(n):
            tot = Sym()
            for l in range(k):
                tot = tot + U[i, l] * sv[l] * V[l, j]
            _eq(eng, tot, a[i, j], 'svd:USV=A')
    if FROBENIUS_LEMMA[0]:
        # implied by the contract above (U^H U = I, V V^H = I, U S V = A): sum |a_ij|^2 = sum s_k^2.  Opt-in (harness flag): a lemma,
        # not an additional assumption; it spares the linear prover the degree-6 multipliers needed to derive it.
        ta = Sym(); ts_ = Sym()
        for x in a.reshape(-1):
            ta = ta + S(x).abs2()
        for l in range(k):
            ts_ = ts_ + sv[l] * sv[l]
        _eq(eng, ts_, ta, 'svd:frobenius')
    SVD_CALLS.append((U, sv, V))
    return U, sv, V


def sumsq(a):
    tot = Sym()
    for x in np.asarray(a, dtype=object).reshape(-1):
        tot = tot + S(x).abs2()
    return tot


def stub_norm(a, ord=None, axis=None, keepdims=False):
    a = np.asarray(a)
    if a.dtype != object:
        return _orig['norm'](a, ord=ord, axis=axis, keepdims=keepdims)
    if ord is not None or axis is not None:
        raise SymUnsupported('norm stub supports the default Frobenius/2-norm only')
    eng = E.current()
    s = sumsq(a)
    if s.is_const():
        r = eng.sqrt_of(s)
        c = r.cval()
        return float(c) if eng.concrete else (int(c) if c == int(c) else r)
    STUB_LOG.append(('norm', a.shape))
    return eng.sqrt_of(s)


def stub_vdot(a, b):
    a_ = np.asarray(a); b_ = np.asarray(b)
    if a_.dtype == object or b_.dtype == object:
        tot = Sym()
        for x, y in zip(a_.reshape(-1), b_.reshape(-1)):
            tot = tot + S(x).conjugate() * S(y)
        return tot
    return _orig['vdot'](a, b)


def stub_crandn(size=None, rng=None):
    eng = E.current()
    cid = len(STUB_LOG)
    STUB_LOG.append(('crandn', size))
    if size is None:
        return eng.csym(f'rnd{cid}', 'input')
    if isinstance(size, int):
        size = (size,)
    return eng.sym_array(f'rnd{cid}', tuple(size), cplx=True)


_installed = [False]


def install():
    """rebind names (idempotent).  pytenet is imported from /repo's working tree (PYTHONPATH)."""
    if _installed[0]:
        return
    np.einsum = generic_einsum
    np.linalg.qr = stub_qr
    np.linalg.svd = stub_svd
    np.linalg.norm = stub_norm
    np.vdot = stub_vdot
    proxy = NPProxy(np)
    for name in PROXIED:
        try:
            mod = importlib.import_module('pytenet.' + name)
        except ImportError:
            continue
        if hasattr(mod, 'np'):
            mod.np = proxy
    import pytenet.mps, pytenet.mpo
    _real_crandn = pytenet.mps.crandn

    def crandn(size=None, rng=None):
        if active() and not E.current().concrete:
            return stub_crandn(size, rng)
        return _real_crandn(size, rng)
    pytenet.mps.crandn = crandn
    pytenet.mpo.crandn = crandn
    # OpHalfchain hashes (oids, qnums, nidl); a symbolic charge that equals a plain int on some path would hash
    # differently from it, so the hash is made constant: set/dict lookups then decide by __eq__ (branching).
    # Semantics-preserving for any hash that is consistent with __eq__ (stated in the evidence).
    import pytenet.opgraph
    pytenet.opgraph.OpHalfchain.__hash__ = lambda self: 0
    _installed[0] = True


def reset_logs():
    STUB_LOG.clear()
    SVD_CALLS.clear()
