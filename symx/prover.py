"""
symx.prover -- discharge verification conditions.

* prove_int:  goals over integer (charge/id) variables, decided exactly by z3 QF_LIA together with the
              integer part of the path condition.
* prove:      polynomial equalities / inequalities over the reals, modulo the hypotheses of the path
              (stub contracts, path equalities) by *linearised ideal membership*: one LRA variable per
              monomial, hypotheses multiplied by goal-directed monomial multipliers.
              unsat  => the goal holds for every real assignment satisfying the path condition (sound);
              sat    => not proved at this multiplier degree (a candidate, to be replayed concretely).
"""
import os
import subprocess
import sys
import tempfile
import time
from fractions import Fraction
import z3

from .poly import (Atom, Sym, S, padd, psub, pmul, pneg, pconst, pscale, pmulmono, mono_div, mono_deg, mono_mul,
                   pis_const, pcval, VKIND)
from .engine import Lin, is_int_poly


class PStats:
    def __init__(self):
        self.queries = 0; self.t_solver = 0.0; self.t_build = 0.0; self.products = 0; self.monos = 0
        self.proved = 0; self.unproved = 0; self.unknown = 0; self.trivial = 0

    def add_to(self, acc, prefix='vc'):
        acc.inc(prefix + '_queries', self.queries); acc.inc(prefix + '_t_solver', self.t_solver)
        acc.inc(prefix + '_t_build', self.t_build); acc.inc(prefix + '_products', self.products)


def split_goals(goals):
    """Sym / dict goals -> list of real polynomial dicts"""
    out = []
    for g in goals:
        if isinstance(g, dict):
            out.append(g)
        else:
            g = S(g)
            out.append(g.t)
            if g.u:
                out.append(g.u)
    return out


def prove_int(eng, atoms, acc=None):
    """all atoms (over int variables) follow from the integer path condition?  -> 'proved' | 'unproved'"""
    lits = []
    for a in atoms:
        if isinstance(a, bool):
            if not a:
                return 'unproved'
            continue
        if a.is_const():
            if not a.const_value():
                return 'unproved'
            continue
        if not is_int_poly(a.p):
            raise ValueError('prove_int: non-integer atom')
        lits.append(Lin.rel(eng.lin.iexpr(a.p), a.op))
    if not lits:
        if acc is not None:
            acc.inc('vc_int_trivial')
        return 'proved'
    t = time.time()
    r = eng.isolver.check(z3.Not(z3.And(*lits)) if len(lits) > 1 else z3.Not(lits[0]))
    if r == z3.sat:
        # keep the counter-model: a model of the integer path condition that violates this VC (used by the concretiser)
        try:
            m = eng.isolver.model()
            cex = {v: m.eval(x, model_completion=True).as_long() for v, x in eng.lin.iv.items()}
            for v, k in enumerate(VKIND):
                if k == 'int' and v not in cex:
                    cex[v] = 0
            eng.int_cex = cex
        except Exception:
            pass
    if acc is not None:
        acc.inc('vc_int_queries'); acc.inc('vc_int_t', time.time() - t)
    return 'proved' if r == z3.unsat else ('unknown' if r == z3.unknown else 'unproved')


BUILD_BUDGET_S = 40.0
HARD_LIMIT_ASSERTIONS = 1500      # larger queries go to the z3 command line binary under a hard wall-clock limit
Z3_BIN = os.path.join(os.path.dirname(sys.executable), 'z3')


_XCHECK = dict(done=0)


def cross_check(solver, z3_verdict, n_assertions, acc):
    """second solver (4.6): re-decide a sample of the LRA queries with cvc5 (Python API, SMT-LIB dump of the very query);
    a disagreement or an '(error' makes the run inconclusive"""
    limit = int(os.environ.get('VERIF_XCHECK', '0') or 0)
    if limit <= 0 or _XCHECK['done'] >= limit or n_assertions > 4000 or z3_verdict not in ('sat', 'unsat'):
        return
    # sample: every query of the first few, then thin out
    _XCHECK['seen'] = _XCHECK.get('seen', 0) + 1
    if _XCHECK['seen'] > 8 and _XCHECK['seen'] % 7:
        return
    try:
        import cvc5
    except ImportError:
        return
    _XCHECK['done'] += 1
    t = time.time()
    try:
        smt = '(set-logic QF_LRA)\n' + solver.to_smt2()
        slv = cvc5.Solver()
        slv.setOption('tlimit-per', '20000')
        ip = cvc5.InputParser(slv)
        ip.setStringInput(cvc5.InputLanguage.SMT_LIB_2_6, smt, 'q')
        sm = ip.getSymbolManager()
        verdict = 'unknown'
        while True:
            c = ip.nextCommand()
            if c.isNull():
                break
            out = str(c.invoke(slv, sm)).strip()
            if '(error' in out:
                verdict = 'error'
                break
            if out in ('sat', 'unsat', 'unknown'):
                verdict = out
    except Exception as e:       # parser / API trouble: inconclusive, never success
        verdict = 'error'
    if acc is not None:
        acc.inc('xcheck_queries'); acc.inc('xcheck_seconds', time.time() - t)
        if verdict == z3_verdict:
            acc.inc('xcheck_agree')
        elif verdict in ('unknown',):
            acc.inc('xcheck_cvc5_unknown')
        else:
            acc.add('xcheck_disagreements', dict(z3=z3_verdict, cvc5=verdict, assertions=n_assertions))


def check_with_hard_limit(solver, n_assertions, timeout_s, stats=None):
    """z3 verdict as a string.  z3's own soft timeout is not always honoured inside large simplex runs (observed:
    > 15 min on a satisfiable query with 6e4 equalities), so big queries are decided by the z3 CLI in a child process
    that is killed at the limit.  A kill / '(error' / anything unexpected is reported as 'unknown' (inconclusive)."""
    if n_assertions < HARD_LIMIT_ASSERTIONS or not os.path.exists(Z3_BIN):
        r = solver.check()
        return 'unsat' if r == z3.unsat else ('sat' if r == z3.sat else 'unknown')
    smt = solver.to_smt2()
    fd, path = tempfile.mkstemp(suffix='.smt2', prefix='symx_')
    try:
        with os.fdopen(fd, 'w') as f:
            f.write(smt)
        # the limit is CPU time of the child (RLIMIT_CPU), so that a loaded machine does not turn a provable VC into 'unknown';
        # the wall-clock limits are a generous backstop only
        def _limit():
            import resource
            resource.setrlimit(resource.RLIMIT_CPU, (int(timeout_s) + 2, int(timeout_s) + 5))
        try:
            p = subprocess.run([Z3_BIN, f'-T:{int(4 * timeout_s)}', path], capture_output=True, text=True, timeout=4 * timeout_s + 15,
                               preexec_fn=_limit)
        except subprocess.TimeoutExpired:
            return 'unknown'
        out = p.stdout.strip()
        if '(error' in out or '(error' in p.stderr:
            return 'unknown'
        tok = out.split()[0] if out.split() else ''
        if stats is not None:
            stats['cli'] = stats.get('cli', 0) + 1
        return tok if tok in ('sat', 'unsat') else 'unknown'
    finally:
        try:
            os.unlink(path)
        except OSError:
            pass


def _saturate(hyps, seeds, rounds, maxdeg, max_products):
    """goal-directed multiplier products; returns list of product polynomials"""
    t_start = time.process_time()
    prods = []
    seen = set()
    hinfo = []
    for h in hyps:
        hinfo.append([(m, frozenset(v for v, _ in m)) for m in h])
    target = set(seeds)
    frontier = set(seeds)
    for _ in range(rounds):
        new = set()
        for g in frontier:
            gv = frozenset(v for v, _ in g)
            for hi, h in enumerate(hyps):
                for m, mv in hinfo[hi]:
                    if not mv <= gv:
                        continue
                    q = mono_div(m, g)
                    if q is None:
                        continue
                    key = (hi, q)
                    if key in seen:
                        continue
                    if mono_deg(q) > maxdeg:
                        continue
                    seen.add(key)
                    p = pmulmono(h, q)
                    prods.append(p)
                    for mm in p:
                        if mm not in target:
                            new.add(mm)
                    if len(prods) >= max_products or (len(prods) % 512 == 0 and time.process_time() - t_start > BUILD_BUDGET_S):
                        return prods, True
        target |= new
        frontier = new
        if not frontier:
            break
    return prods, False


def split_pairs(pairs):
    """(lhs, rhs) Sym pairs -> list of (lhs_poly, rhs_poly) over the reals (real and imaginary parts separately)"""
    out = []
    for l, r in pairs:
        l = S(l); r = S(r)
        out.append((l.t, r.t))
        if l.u or r.u:
            out.append((l.u or {}, r.u or {}))
    return out


def prove(eng, goals=(), goal_atoms=(), rounds=2, maxdeg=8, extra_hyps=(), use_pc=True, timeout_ms=30000,
          max_products=60000, acc=None, label='vc', ineq_multipliers=False, extra_atoms=(), pairs=(), record=True):
    """
    goals: polynomials (Sym or dict) that must equal 0;  goal_atoms: Atoms that must hold.
    Returns 'proved' | 'unproved' | 'unknown'.
    """
    t0 = time.time()
    gl = [g for g in split_goals(goals)]
    pl = split_pairs(pairs)
    pdiff = [psub(l, r) for l, r in pl]
    atoms = [a for a in goal_atoms if not (a.is_const() and a.const_value())]
    if any(a.is_const() and not a.const_value() for a in atoms):
        if acc is not None:
            acc.inc(label + '_unproved')
        return 'unproved'
    nz = [g for g in gl if g]
    # constant non-zero goals can never hold
    if any(pis_const(g) for g in nz) or any(d and pis_const(d) for d in pdiff):
        if acc is not None:
            acc.inc(label + '_unproved')
        return 'unproved'
    hyps = [h for h in list(eng.hyps) + list(extra_hyps) if h]
    lin = Lin()
    s = z3.SolverFor('QF_LRA')
    s.set('timeout', timeout_ms)
    seeds = set()
    for g in nz:
        seeds |= set(g)
    for d in pdiff:
        seeds |= set(d)
    for a in atoms:
        seeds |= set(a.p)
    pc_atoms = ([a for a in eng.atoms if not is_int_poly(a.p)] if use_pc else []) + list(extra_atoms)
    if atoms:
        # inequalities usually need the path inequalities' monomials as well
        for a in pc_atoms:
            if a.op != '==':
                seeds |= set(a.p)
    seeds.discard(())
    prods, capped = ([], False)
    if hyps and seeds and rounds > 0:
        prods, capped = _saturate(hyps, seeds, rounds, maxdeg, max_products)
    for p in prods:
        s.add(lin.rexpr(p) == 0)
    for a in pc_atoms:
        if a.op == '==':
            continue    # already among the hypotheses (and their products)
        s.add(Lin.rel(lin.rexpr(a.p), a.op))
    if ineq_multipliers:
        # a path inequality p <= 0 may be multiplied by an even-power monomial occurring in the goals
        sq = [m for m in seeds if m and all(e % 2 == 0 for _, e in m)]
        for a in pc_atoms:
            if a.op in ('<', '<='):
                for m in sq:
                    if mono_deg(m) + max((mono_deg(x) for x in a.p), default=0) <= maxdeg:
                        s.add(lin.rexpr(pmulmono(a.p, m)) <= 0)
    for h in hyps:
        s.add(lin.rexpr(h) == 0)
    neg = [lin.rexpr(g) != 0 for g in nz] + [z3.Not(Lin.rel(lin.rexpr(a.p), a.op)) for a in atoms]
    # pairs: both sides are handed to the solver separately (the solver, not the normaliser, decides equality)
    neg += [lin.rexpr(l) != lin.rexpr(r) for l, r in pl if l or r]
    for x in lin.fresh_nonneg:
        s.add(x >= 0)
    lin.fresh_nonneg = []
    t1 = time.time()
    if not neg:
        res = 'proved'
        dt = 0.0
        if acc is not None:
            acc.inc(label + '_trivial')
    else:
        s.add(z3.Or(*neg) if len(neg) > 1 else neg[0])
        if capped:
            r = 'unknown'      # the multiplier set was cut off: do not spend solver time on a query that cannot prove the goal
        else:
            r = check_with_hard_limit(s, len(prods) + len(hyps), timeout_ms / 1000.0)
            cross_check(s, r, len(prods) + len(hyps), acc)
        dt = time.time() - t1
        res = 'proved' if r == 'unsat' else ('unknown' if r == 'unknown' else 'unproved')
        if acc is not None and len(prods) + len(hyps) >= HARD_LIMIT_ASSERTIONS:
            acc.inc('vc_cli_queries')
    if res != 'proved' and record:
        # remembered for counterexample-guided concretisation (concretize.goal_directed)
        if not hasattr(eng, 'failed_goals'):
            eng.failed_goals = []
        eng.failed_goals.append(dict(goals=nz + [d for d in pdiff if d], atoms=atoms, label=label))
    if acc is not None:
        acc.inc(label + '_queries', 1 if neg else 0); acc.inc(label + '_' + res)
        acc.inc('vc_t_solver', dt); acc.inc('vc_t_build', t1 - t0); acc.inc('vc_products', len(prods))
        acc.inc('vc_queries', 1 if neg else 0)
        acc.inc('vc_goals', len(nz) + len(atoms) + len(pl))
        if capped:
            acc.inc(label + '_capped')
    return res


def prove_escalating(eng, goals=(), goal_atoms=(), rounds=(1, 2, 3), acc=None, label='vc', **kw):
    """try increasing multiplier rounds; only the final verdict is recorded under `label`"""
    from .engine import Acc
    res = 'unproved'
    goals = list(goals)
    n_failed0 = len(getattr(eng, 'failed_goals', []))
    for k_, r in enumerate(rounds):
        if k_ > 0 and kw.get('pairs'):
            kw = dict(kw)
            goals = goals + [S(l) - S(r_) for l, r_ in kw.pop('pairs')]
        tmp = Acc()
        res = prove(eng, goals, goal_atoms, rounds=r, acc=tmp, label='x', **kw)
        if acc is not None:
            for k in ('vc_t_solver', 'vc_t_build', 'vc_products', 'vc_queries', 'vc_cli_queries', 'xcheck_queries', 'xcheck_seconds',
                      'xcheck_agree', 'xcheck_cvc5_unknown'):
                acc.inc(k, tmp.get(k))
            for it in tmp.l.get('xcheck_disagreements', []):
                acc.add('xcheck_disagreements', it)
            if k_ == 0:
                acc.inc('vc_goals', tmp.get('vc_goals'))
            if tmp.get('x_trivial'):
                acc.inc(label + '_trivial')
        if res == 'proved':
            break
        if acc is not None and k_ + 1 < len(rounds):
            acc.inc(label + '_escalations')
    if hasattr(eng, 'failed_goals') and len(eng.failed_goals) > n_failed0:
        last = eng.failed_goals[-1]
        del eng.failed_goals[n_failed0:]
        if res != 'proved':
            eng.failed_goals.append(last)
    if acc is not None:
        acc.inc(label + '_' + res)
    return res


def canary(eng, goal, rounds=2, **kw):
    """a goal shifted by 1 must NOT be provable; returns True if the hypotheses look consistent"""
    g = S(goal)
    shifted = Sym(padd(g.t, pconst(1)))
    kw.pop('acc', None)
    return prove(eng, [shifted], rounds=rounds, record=False, **kw) != 'proved'


def prove_within_tolerance(eng, goals, input_vars, bound=1000, eps=Fraction(1, 10**9), acc=None, label='vc_tol'):
    """|g| <= eps for all goals, for all input variables in [-bound, bound] (LRA; exact when the goals are linear)"""
    from .poly import pdeg
    gl = [g for g in split_goals(goals) if g]
    if any(pdeg(g) > 1 for g in gl):
        return 'unproved'
    extra = []
    for v in input_vars:
        x = {((v, 1),): 1}
        extra.append(Atom(psub(x, pconst(bound)), '<='))
        extra.append(Atom(psub(pneg(x), pconst(bound)), '<='))
    atoms = []
    for g in gl:
        atoms.append(Atom(psub(g, pconst(eps)), '<='))
        atoms.append(Atom(psub(pneg(g), pconst(eps)), '<='))
    return prove(eng, [], atoms, rounds=0, extra_atoms=extra, acc=acc, label=label)


def promote_zeros(eng, rounds=2, maxdeg=6):
    """
    Sign reasoning the linear prover cannot multiply with: find even-power monomials m that the path condition
    forces to zero (e.g. a sum of squares <= 0), and add  m = 0  and its real square root  sqrt(m) = 0  (valid over the
    reals) as hypotheses, so that later VCs may multiply them.  Returns the number of promoted monomials.
    """
    seeds = set()
    for a in eng.atoms:
        if is_int_poly(a.p):
            continue
        if a.op in ('<', '<=', '=='):
            for m in a.p:
                if m and all(e % 2 == 0 for _, e in m):
                    seeds.add(m)
    for h, t in zip(eng.hyps, eng.hyp_tags):
        if t in ('sqrt', 'forced', None):
            for m in h:
                if m and all(e % 2 == 0 for _, e in m) and mono_deg(m) <= maxdeg:
                    seeds.add(m)
    # monomials  e * v  with e an even-power monomial and v the Rabinowitsch inverse of a quantity that is >= 0 on the path
    # (then v > 0, so  e * v <= 0  forces e = 0): candidates are collected here, positivity is decided by the solver below
    inv_of = {}
    for key, iv in getattr(eng, 'invs', {}).items():
        (mv, _), = iv.t.items()
        inv_of[mv[0][0]] = dict(key)
    semi = {}
    for a in eng.atoms:
        if is_int_poly(a.p) or a.op not in ('<', '<=', '=='):
            continue
        for m in a.p:
            odd = [(v, e) for v, e in m if e % 2]
            if len(odd) == 1 and odd[0][1] == 1 and odd[0][0] in inv_of and len(m) > 1:
                semi[m] = (odd[0][0], tuple((v, e) for v, e in m if v != odd[0][0]))
    done = getattr(eng, '_promoted', set())
    seeds -= done
    semi = {m: x for m, x in semi.items() if m not in done}
    if not seeds and not semi:
        return 0
    hyps = [h for h in eng.hyps if h]
    lin = Lin()
    s = z3.SolverFor('QF_LRA')
    s.set('timeout', 20000)
    prods, _ = _saturate(hyps, seeds | set(semi), rounds, maxdeg, 20000)
    for p in prods:
        s.add(lin.rexpr(p) == 0)
    for h in hyps:
        s.add(lin.rexpr(h) == 0)
    for a in eng.atoms:
        if not is_int_poly(a.p) and a.op != '==':
            s.add(Lin.rel(lin.rexpr(a.p), a.op))
    exprs = {m: lin.mon(m) for m in seeds}
    semi_exprs = {m: (lin.mon(m), lin.rexpr(inv_of[v]), e) for m, (v, e) in semi.items()}
    for x in lin.fresh_nonneg:
        s.add(x >= 0)
    lin.fresh_nonneg = []
    n = 0
    for m, x in exprs.items():
        if s.check(x > 0) == z3.unsat:
            n += 1
            done.add(m)
            cur = m
            while True:
                eng.hyps.append({cur: 1}); eng.hyp_tags.append('promoted')
                eng.rsolver.add(eng.lin.mon(cur) == 0)
                if all(e % 2 == 0 for _, e in cur):
                    cur = tuple((v, e // 2) for v, e in cur)
                else:
                    break
    for m, (x, q, e) in semi_exprs.items():
        for y in lin.fresh_nonneg:
            s.add(y >= 0)
        lin.fresh_nonneg = []
        if s.check(q < 0) == z3.unsat and s.check(x > 0) == z3.unsat:
            # q >= 0 and q * v = 1  =>  v > 0;  e * v <= 0  =>  e <= 0  =>  e = 0 (even-power monomial), hence m = 0
            n += 1
            done.add(m)
            eng.hyps.append({m: 1}); eng.hyp_tags.append('promoted')
            eng.rsolver.add(eng.lin.mon(m) == 0)
            cur = e
            while cur:
                eng.hyps.append({cur: 1}); eng.hyp_tags.append('promoted')
                eng.rsolver.add(eng.lin.mon(cur) == 0)
                if all(k % 2 == 0 for _, k in cur):
                    cur = tuple((v, k // 2) for v, k in cur)
                else:
                    break
    eng._promoted = done
    if n:
        eng.rmodel = None
        eng._flush_nonneg()
    return n


def forced_zero_inputs(eng, var_indices, acc=None):
    """input variables that are provably zero on this path (used to build faithful concrete replays)"""
    out = []
    for v in var_indices:
        if prove(eng, [{((v, 1),): 1}], rounds=2, timeout_ms=5000, record=False) == 'proved':
            out.append(v)
    return out
