"""
symx.engine -- path exploration by re-execution (DFS over a recorded decision prefix).

Integer atoms (linear in 'int' variables) are decided exactly by z3 (QF_LIA, Int sort only).
Real atoms are linearised (one LRA variable per monomial) -- an over-approximation of
feasibility, which can only add paths, never lose one.
"""
import math
import time
from fractions import Fraction
import numpy as np
import z3

from . import poly
from .poly import (Sym, Atom, VARS, VKIND, VROLE, newvar, pconst, padd, psub, pmul, pneg, pis_const,
                   pcval, pvars, pscale, pmulmono, mono_div, mono_deg, SymUnsupported, SymDivisionByZero, S, R)

_CUR = [None]


def current():
    e = _CUR[0]
    if e is None:
        raise SymUnsupported('symbolic operation outside of an engine context')
    return e


class Cut(BaseException):
    """exploration cut (hand the subtree to a worker)"""


class DeadPath(BaseException):
    """the path condition became infeasible"""


class Budget(BaseException):
    """per-path budget exceeded"""


class StopExploration(BaseException):
    """enough violation candidates were collected in this job: end it (the check fails anyway)"""


# ---------------------------------------------------------------------------------------------

def is_int_poly(p):
    for m in p:
        if not m:
            continue
        if len(m) != 1 or m[0][1] != 1 or VKIND[m[0][0]] != 'int':
            return False
    return True


class Lin:
    """linearisation: monomial -> z3 Real variable; int variables -> z3 Int variables"""

    def __init__(self, ctx=None):
        self.ctx = ctx
        self.mv = {}
        self.iv = {}
        self.fresh_nonneg = []

    def intvar(self, v):
        x = self.iv.get(v)
        if x is None:
            x = z3.Int('i!' + VARS[v], self.ctx)
            self.iv[v] = x
        return x

    def mon(self, m):
        if not m:
            return z3.RealVal(1, self.ctx)
        x = self.mv.get(m)
        if x is None:
            x = z3.Real('m!' + '*'.join(f'{VARS[v]}^{e}' for v, e in m), self.ctx)
            self.mv[m] = x
            if all(e % 2 == 0 for _, e in m):
                self.fresh_nonneg.append(x)
        return x

    def rexpr(self, p):
        if not p:
            return z3.RealVal(0, self.ctx)
        terms = []
        for m, c in p.items():
            cv = z3.RealVal(str(c), self.ctx) if not isinstance(c, int) else z3.RealVal(c, self.ctx)
            terms.append(cv * self.mon(m) if m else cv)
        return z3.Sum(terms) if len(terms) > 1 else terms[0]

    def iexpr(self, p):
        den = 1
        for c in p.values():
            if not isinstance(c, int):
                den = den * c.denominator // math.gcd(den, c.denominator)
        terms = []
        for m, c in p.items():
            ci = int(c * den)
            terms.append(z3.IntVal(ci, self.ctx) * self.intvar(m[0][0]) if m else z3.IntVal(ci, self.ctx))
        if not terms:
            return z3.IntVal(0, self.ctx)
        return z3.Sum(terms) if len(terms) > 1 else terms[0]

    @staticmethod
    def rel(e, op):
        return {'==': e == 0, '!=': e != 0, '<': e < 0, '<=': e <= 0}[op]


class Stats:
    def __init__(self):
        self.q_lia = 0; self.q_lra = 0; self.t_lia = 0.0; self.t_lra = 0.0
        self.q_saved = 0; self.unknown = 0

    def as_dict(self):
        return dict(q_lia=self.q_lia, q_lra=self.q_lra, t_lia=round(self.t_lia, 3), t_lra=round(self.t_lra, 3),
                    q_saved=self.q_saved, unknown=self.unknown)


class Engine:
    FEAS_TIMEOUT_MS = 20000

    def __init__(self, prefix=None, rootlen=0, cut_depth=None, concrete=False, max_decisions=None):
        self.prefix = prefix if prefix is not None else []
        self.rootlen = rootlen
        self.cut_depth = cut_depth
        self.concrete = concrete
        self.max_decisions = max_decisions
        self.depth = 0
        self.lin = Lin()
        self.isolver = z3.SolverFor('QF_LIA')
        self.rsolver = z3.SolverFor('QF_LRA')
        self.isolver.set('timeout', self.FEAS_TIMEOUT_MS)
        self.rsolver.set('timeout', self.FEAS_TIMEOUT_MS)
        self.imodel = None
        self.rmodel = None
        self.hyps = []        # polynomial dicts p with p == 0 (stub contracts and path equalities)
        self.hyp_tags = []
        self.atoms = []       # every assumed atom
        self.stats = Stats()
        self.invs = {}
        self.sqrts = {}
        self.sqrt_rad = {}
        self.marks = {}
        self.events = []
        self.choices = []     # (label, value) of engine-level choices on this path
        self.nfork = 0
        self._str_seen = set()
        self.obligations = []
        self.ineq_lemmas = []
        self.decided = {}     # atoms already decided on this path (the path condition only grows)

    # -- variables ----------------------------------------------------------------------
    INT_BOUND = 2 ** 40      # charges / ids are NumPy int64 in the real code: the claim is for |q| <= 2^40 (sums stay far below 2^63)

    def sym(self, name, kind='real', role='input'):
        v = newvar(name, kind, role)
        if kind == 'int' and not self.concrete:
            x = self.lin.intvar(v)
            self.isolver.add(x <= self.INT_BOUND, x >= -self.INT_BOUND)
        return Sym.var(v)

    def csym(self, name, role='input'):
        a = newvar(name + '.re', 'real', role); b = newvar(name + '.im', 'real', role)
        return Sym({((a, 1),): 1}, {((b, 1),): 1})

    def sym_array(self, name, shape, kind='real', role='input', cplx=False):
        a = np.empty(shape, dtype=object)
        for idx in np.ndindex(*shape):
            nm = name + '_' + '_'.join(map(str, idx)) if idx else name
            a[idx] = self.csym(nm, role) if cplx else self.sym(nm, kind, role)
        return a

    def mark(self, key, n=1):
        self.marks[key] = self.marks.get(key, 0) + n

    # -- solver plumbing ----------------------------------------------------------------
    def _flush_nonneg(self):
        if self.lin.fresh_nonneg:
            for x in self.lin.fresh_nonneg:
                self.rsolver.add(x >= 0)
            self.lin.fresh_nonneg = []

    STRENGTHEN_TAGS = ('sqrt', 'inv', 'promoted')

    def _strengthen(self, monos, rounds=2, maxdeg=6):
        """add goal-directed products of the *definitional* hypotheses (sqrt / inverse / let / promoted zeros) to the
        linearised path solver -- valid consequences, so feasibility stays an over-approximation but loses spurious
        paths such as 'all normalised weights sum to something other than one'"""
        hyps = [(i, h) for i, (h, t) in enumerate(zip(self.hyps, self.hyp_tags)) if t in self.STRENGTHEN_TAGS]
        if not hyps and not self.ineq_lemmas:
            return
        frontier = set(m for m in monos if m)
        for _ in range(rounds):
            new = set()
            for g in frontier:
                for hi, h in hyps:
                    for m in h:
                        q = mono_div(m, g)
                        if q is None or mono_deg(q) > maxdeg:
                            continue
                        key = (hi, q)
                        if key in self._str_seen:
                            continue
                        self._str_seen.add(key)
                        pr = pmulmono(h, q)
                        self.rsolver.add(self.lin.rexpr(pr) == 0)
                        self.rmodel = None
                        for mm in pr:
                            new.add(mm)
            frontier = new
            if not frontier:
                break
        # inequality lemmas p <= 0 may be multiplied by even-power monomials (squares are >= 0)
        if self.ineq_lemmas:
            for g in [m for m in monos if m]:
                for li, p in enumerate(self.ineq_lemmas):
                    for m in p:
                        q = mono_div(m, g)
                        if q is None or not q or any(e % 2 for _, e in q) or mono_deg(q) > maxdeg:
                            continue
                        key = ('L', li, q)
                        if key in self._str_seen:
                            continue
                        self._str_seen.add(key)
                        self.rsolver.add(self.lin.rexpr(pmulmono(p, q)) <= 0)
                        self.rmodel = None
        self._flush_nonneg()

    def add_ineq_lemma(self, p):
        """register a valid fact  p <= 0  (polynomial dict) for use with even multipliers"""
        self.ineq_lemmas.append(p)
        self.atoms.append(Atom(p, '<='))
        self.rsolver.add(Lin.rel(self.lin.rexpr(p), '<='))
        self._flush_nonneg()
        self.rmodel = None

    def _encode(self, a):
        if is_int_poly(a.p):
            return 'i', Lin.rel(self.lin.iexpr(a.p), a.op)
        if a.op != '!=' :
            self._strengthen(a.p.keys())
        e = Lin.rel(self.lin.rexpr(a.p), a.op)
        self._flush_nonneg()
        return 'r', e

    def promote_zeros(self):
        from . import prover
        return prover.promote_zeros(self)

    def _check(self, which, e):
        t = time.time()
        s = self.isolver if which == 'i' else self.rsolver
        r = s.check(e)
        dt = time.time() - t
        if which == 'i':
            self.stats.q_lia += 1; self.stats.t_lia += dt
        else:
            self.stats.q_lra += 1; self.stats.t_lra += dt
        if r == z3.sat:
            m = s.model()
            return True, m
        if r == z3.unknown:
            self.stats.unknown += 1
            return True, None
        return False, None

    def _model_says(self, which, e):
        m = self.imodel if which == 'i' else self.rmodel
        if m is None:
            return None
        try:
            v = m.eval(e, model_completion=True)
        except z3.Z3Exception:
            return None
        if z3.is_true(v):
            return True
        if z3.is_false(v):
            return False
        return None

    def _set_model(self, which, m):
        if which == 'i':
            self.imodel = m
        else:
            self.rmodel = m

    def assume(self, a, tag=None):
        """add an atom to the path condition (used for preconditions and stub contracts)"""
        if isinstance(a, (bool, np.bool_)):
            if not a:
                raise DeadPath()
            return
        if a.is_const():
            if not a.const_value():
                raise DeadPath()
            return
        self.atoms.append(a)
        if a.op == '==':
            self.hyps.append(a.p); self.hyp_tags.append(tag)
        which, e = self._encode(a)
        s = self.isolver if which == 'i' else self.rsolver
        s.add(e)
        if self._model_says(which, e) is not True:
            self._set_model(which, None)

    def assume_feasible(self, a, tag=None):
        """assume and check that the path condition is still satisfiable (else the path is dead)"""
        self.assume(a, tag)
        if isinstance(a, Atom) and not a.is_const():
            which = 'i' if is_int_poly(a.p) else 'r'
            if (self.imodel if which == 'i' else self.rmodel) is None:
                ok, m = self._check(which, z3.BoolVal(True))
                if not ok:
                    raise DeadPath()
                self._set_model(which, m)

    @staticmethod
    def _akey(a):
        items = sorted(a.p.items())
        if a.op in ('==', '!=') and items and items[-1][1] < 0:
            items = [(m, -c) for m, c in items]
        return (a.op, tuple(items))

    def _remember(self, a, d):
        k = self._akey(a)
        self.decided[k] = d
        self.decided[self._akey(a.neg())] = not d

    def branch(self, a):
        if self.concrete:
            raise SymUnsupported('branch on a non-constant atom in concrete mode')
        hit = self.decided.get(self._akey(a))
        if hit is not None:
            return hit
        d = self._branch(a)
        self._remember(a, d)
        self._link_sqrt(a, d)
        return d

    def _link_sqrt(self, a, d):
        """facts over the reals that the linearisation cannot see: for r = sqrt(p):  r == 0  <=>  p == 0.  Whenever one side is
        decided on a path the other side is added to the path condition (DeadPath if that contradicts it)."""
        if a.op not in ('==', '!=') or not self.sqrts or getattr(self, '_linking', False):
            return
        zero = d if a.op == '==' else (not d)
        p = a.p
        self._linking = True
        try:
            if len(p) == 1:
                (m, c), = p.items()
                if len(m) == 1 and m[0][1] == 1 and m[0][0] in self.sqrt_rad:
                    # (r != 0 => radicand != 0 is not propagated: a disequality over a long polynomial makes every later LRA query
                    # of the path split cases, and nothing needs it - the radicand is > 0 by r^2 = radicand, r > 0 where it matters)
                    if zero:
                        self.assume(Atom(self.sqrt_rad[m[0][0]], '=='))
                    return
            for key in (tuple(sorted(p.items())), tuple(sorted(pneg(p).items()))):
                r = self.sqrts.get(key)
                if r is not None:
                    self.assume(Atom(r.t, '==' if zero else '!='))
                    return
        finally:
            self._linking = False

    def _branch(self, a):
        if self.depth < len(self.prefix):
            idx, n, forced = self.prefix[self.depth]
            self.depth += 1
            d = (idx == 0)
            lit = a if d else a.neg()
            if not forced:
                self.assume(lit)
            else:
                self.atoms.append(lit)
                if lit.op == '==':
                    self.hyps.append(lit.p); self.hyp_tags.append('forced')
            return d
        if self.cut_depth is not None and len(self.prefix) >= self.cut_depth:
            raise Cut()
        if self.max_decisions is not None and len(self.prefix) >= self.max_decisions:
            raise Budget()
        which, e = self._encode(a)
        says = self._model_says(which, e)
        mt = mf = None
        if says is True:
            ct = True; mt = self.imodel if which == 'i' else self.rmodel; self.stats.q_saved += 1
        else:
            ct, mt = self._check(which, e)
        if says is False:
            cf = True; mf = self.imodel if which == 'i' else self.rmodel; self.stats.q_saved += 1
        else:
            cf, mf = self._check(which, z3.Not(e))
        if ct and cf:
            self.prefix.append([0, 2, False]); self.depth += 1
            self.nfork += 1
            self.assume(a)
            self._set_model(which, mt)
            return True
        if not ct and not cf:
            raise DeadPath()
        d = ct
        self.prefix.append([0 if d else 1, 2, True]); self.depth += 1
        # forced: the literal is implied by the path condition; record it as a usable fact
        lit = a if d else a.neg()
        self.atoms.append(lit)
        if lit.op == '==':
            self.hyps.append(lit.p); self.hyp_tags.append('forced')
        return d

    def known(self, a):
        """True if the path condition (as linearised) implies the atom, False if it implies its negation, else None"""
        if isinstance(a, (bool, np.bool_)):
            return bool(a)
        if a.is_const():
            return a.const_value()
        which, e = self._encode(a)
        ct, _ = self._check(which, e)
        if not ct:
            return False
        cf, _ = self._check(which, z3.Not(e))
        if not cf:
            return True
        return None

    def choose(self, n, label=None):
        """engine-level n-way choice (small discrete structure), explored exhaustively"""
        if n <= 0:
            raise DeadPath()
        if self.depth < len(self.prefix):
            idx, nn, forced = self.prefix[self.depth]
            self.depth += 1
        else:
            if self.cut_depth is not None and len(self.prefix) >= self.cut_depth:
                raise Cut()
            idx = 0
            self.prefix.append([0, n, n == 1]); self.depth += 1
        self.choices.append((label, idx))
        return idx

    def choose_from(self, seq, label=None):
        seq = list(seq)
        return seq[self.choose(len(seq), label)]

    # -- stubs --------------------------------------------------------------------------
    def inverse_of(self, s):
        """Rabinowitsch inverse of a real, non-constant symbolic scalar"""
        key = tuple(sorted(s.t.items()))
        inv = self.invs.get(key)
        if inv is None:
            if self.concrete:
                raise SymUnsupported('inverse_of in concrete mode')
            if bool(Atom(s.t, '==')):
                self.events.append(('division_by_zero', poly.pstr(s.t)))
                raise SymDivisionByZero('division by a symbolic quantity that is zero on this path')
            inv = self.sym(f'inv{len(VARS)}', 'real', 'aux')
            self.invs[key] = inv
            self.assume(Atom(psub(pmul(s.t, inv.t), pconst(1)), '=='), tag='inv')
        return inv

    def sqrt_of(self, s):
        """non-negative square root of a real symbolic scalar (branches on the sign of the argument)"""
        if s.is_const():
            c = s.cval()
            if c < 0:
                raise SymUnsupported('sqrt of a negative constant')
            f = Fraction(c)
            rn, rd = math.isqrt(f.numerator), math.isqrt(f.denominator)
            if rn * rn == f.numerator and rd * rd == f.denominator:
                return Sym(pconst(Fraction(rn, rd)))
            return Sym(pconst(Fraction(math.sqrt(float(c)))))   # concrete mode only: inexact
        key = tuple(sorted(s.t.items()))
        r = self.sqrts.get(key)
        if r is None:
            k = self.known(Atom(pneg(s.t), '<='))
            if k is False:
                raise SymUnsupported('sqrt of a provably negative symbolic quantity')
            if k is None:
                # not decidable by the linearised path condition (e.g. an expanded sum of squares): no fork; the
                # harness must discharge the obligation "argument >= 0" (see Engine.obligations)
                self.obligations.append(('sqrt_arg_nonneg', s))
                self.assume(Atom(pneg(s.t), '<='), tag='sqrt_arg>=0')
            r = self.sym(f'sqrt{len(VARS)}', 'real', 'aux')
            self.sqrts[key] = r
            (rm, _), = r.t.items()
            self.sqrt_rad[rm[0][0]] = s.t
            self.assume(Atom(pneg(r.t), '<='), tag='sqrt>=0')
            self.assume(Atom(psub(pmul(r.t, r.t), s.t), '=='), tag='sqrt')
            # r == 0 <=> radicand == 0 (invisible to the linearisation): inherit what the path already knows about the radicand
            kz = self.known(Atom(s.t, '=='))
            if kz is True:
                self.assume(Atom(r.t, '=='))
            elif kz is False:
                self.assume(Atom(r.t, '!='))
        return r

    def abstract(self, s, name='let'):
        """replace a scalar by a fresh variable together with its defining equation (sound)"""
        s = S(s)
        if s.is_const() or (s.u is None and len(s.t) == 1 and pdeg1(s.t)):
            return s
        if s.is_zero():
            return s
        if s.u is None:
            x = self.sym(f'{name}{len(VARS)}', 'real', 'aux')
            self.hyps.append(psub(x.t, s.t)); self.hyp_tags.append('let')
            return x
        re = self.abstract(Sym(s.t), name); im = self.abstract(Sym(s.u), name)
        return Sym(re.t, im.t)

    # -- models -------------------------------------------------------------------------
    def int_model(self):
        """concrete integers for all 'int' variables consistent with the integer path condition"""
        r = self.isolver.check()
        if r != z3.sat:
            return None
        m = self.isolver.model()
        out = {}
        for v, x in self.lin.iv.items():
            val = m.eval(x, model_completion=True)
            out[v] = val.as_long()
        for v, k in enumerate(VKIND):
            if k == 'int' and v not in out:
                out[v] = 0
        return out


def pdeg1(t):
    (m, c), = t.items()
    return len(m) == 1 and m[0][1] == 1 and c == 1


class ConcreteEngine(Engine):
    def __init__(self):
        super().__init__(concrete=True)


# ---------------------------------------------------------------------------------------------

class Acc:
    """mergeable accumulator: counters, capped lists"""

    def __init__(self, cap=40):
        self.c = {}
        self.l = {}
        self.cap = cap

    def inc(self, k, n=1):
        self.c[k] = self.c.get(k, 0) + n

    def add(self, k, item):
        L = self.l.setdefault(k, [])
        if len(L) < self.cap:
            L.append(item)
        self.inc('#' + k)

    def merge(self, o):
        for k, v in o.c.items():
            self.c[k] = self.c.get(k, 0) + v
        for k, L in o.l.items():
            M = self.l.setdefault(k, [])
            for it in L:
                if len(M) < self.cap:
                    M.append(it)
        return self

    def get(self, k, d=0):
        return self.c.get(k, d)


def _exhausted(ent):
    return ent[2] or ent[0] >= ent[1] - 1


def explore(fn, acc=None, root=None, cut_depth=None, max_paths=None, max_decisions=None, deadline=None):
    """
    Run `fn(eng, acc)` on every feasible path.  Returns (acc, roots) where roots are the decision prefixes
    at which exploration was cut (only with cut_depth).
    """
    acc = acc if acc is not None else Acc()
    prefix = [list(e) for e in root] if root else []
    rootlen = len(prefix)
    roots = []
    while True:
        poly.reset_vars()
        poly.ABSTRACT[0] = None
        eng = Engine(prefix, rootlen, cut_depth, max_decisions=max_decisions)
        _CUR[0] = eng
        t0 = time.time()
        try:
            fn(eng, acc)
            acc.inc('paths')
        except Cut:
            roots.append([list(e) for e in eng.prefix])
            acc.inc('cuts')
        except DeadPath:
            acc.inc('dead_paths')
        except Budget:
            acc.inc('budget_paths')
            acc.add('budget', dict(decisions=len(eng.prefix)))
        except StopExploration:
            acc.inc('stopped_after_candidates')
            _CUR[0] = None
            break
        finally:
            _CUR[0] = None
        st = eng.stats
        acc.inc('q_lia', st.q_lia); acc.inc('q_lra', st.q_lra)
        acc.inc('t_lia', st.t_lia); acc.inc('t_lra', st.t_lra)
        acc.inc('q_saved', st.q_saved); acc.inc('unknown_feas', st.unknown)
        acc.inc('t_paths', time.time() - t0)
        for k, v in eng.marks.items():
            acc.inc('mark:' + k, v)
        prefix = eng.prefix
        while len(prefix) > rootlen and _exhausted(prefix[-1]):
            prefix.pop()
        if len(prefix) <= rootlen:
            break
        prefix[-1] = [prefix[-1][0] + 1, prefix[-1][1], False]
        if max_paths is not None and acc.get('paths') + acc.get('cuts') >= max_paths:
            acc.inc('truncated')
            break
        if deadline is not None and time.time() > deadline:
            acc.inc('truncated')
            break
    return acc, roots


def run_concrete(fn, *args, **kw):
    """run fn under a concrete engine (all values constant Syms)"""
    poly.reset_vars()
    eng = ConcreteEngine()
    old = _CUR[0]
    _CUR[0] = eng
    try:
        return fn(eng, *args, **kw)
    finally:
        _CUR[0] = old
