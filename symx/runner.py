"""
symx.runner -- common driver: parallel exploration, candidate replay, evidence, exit codes.

exit 0  property held on everything explored
exit 1  at least one candidate reproduced on the real code:  "VIOLATION property=<id> replay=<path>"
exit 2  inconclusive / harness error (never expected on the unchanged tree)
"""
import argparse
import concurrent.futures as cf
import hashlib
import importlib
import json
import multiprocessing as mp
import os
import subprocess
import sys
import time
import traceback

from . import engine as E
from .engine import Acc

VERIF = os.path.dirname(os.path.dirname(os.path.abspath(__file__)))
REPO = os.environ.get('VERIF_REPO', '/repo')
REPLAY_PY = '/venv/bin/python'


class HarnessError(Exception):
    pass


class ConcreteViolation(Exception):
    """the concrete property check failed on the REAL code for an input of the validation sweep: a genuine violation with a
    replayable input (found by the sampling part of the encoding validation, not by the solver)"""

    def __init__(self, kind, inputs, fails):
        super().__init__(f'{kind}: {fails[:2]}')
        self.kind, self.inputs, self.fails = kind, inputs, fails


def concrete_check(kind, inputs):
    """run a concrete property check on the real code; raise ConcreteViolation (with JSON-able inputs) if it fails"""
    from harness import concrete
    from .concretize import evaluate
    enc = evaluate(inputs, {})
    fails = concrete.CHECKS[kind](concrete.decode(json.loads(json.dumps(enc))))
    if fails:
        raise ConcreteViolation(kind, enc, fails)


def _dump_on_usr1():
    try:
        import faulthandler, signal
        faulthandler.register(signal.SIGUSR1, all_threads=True, chain=False)
    except Exception:
        pass


def _job(modname, task, root, cut_depth, deadline_s):
    _dump_on_usr1()
    H = importlib.import_module(modname)
    acc = Acc()
    t0 = time.time()
    deadline = t0 + deadline_s if deadline_s else None
    from . import concretize
    concretize.reset_budget()

    def fn(eng, acc_):
        H.path(eng, acc_, task)
    try:
        acc, roots = E.explore(fn, acc, root=root, cut_depth=cut_depth, deadline=deadline,
                               max_decisions=task.get('max_decisions'))
    except Exception as e:   # harness bug or unsupported construct: report, do not hide
        acc.add('errors', dict(task=task.get('name'), error=f'{type(e).__name__}: {e}',
                               tb=traceback.format_exc()[-1500:]))
        roots = []
    acc.inc('t_job', time.time() - t0)
    return task['name'], acc, roots


def run_parallel(modname, tasks, nproc, log=print):
    total = Acc()
    per_task = {}
    ctx = mp.get_context('fork')
    with cf.ProcessPoolExecutor(max_workers=nproc, mp_context=ctx) as ex:
        pending = set()
        for t in tasks:
            pending.add(ex.submit(_job, modname, t, None, t.get('cut'), t.get('deadline')))
        tmap = {t['name']: t for t in tasks}
        t_start = time.time()
        max_wall = float(os.environ.get('VERIF_MAX_WALL', '0') or 0)
        while pending:
            done, pending = cf.wait(pending, timeout=30, return_when=cf.FIRST_COMPLETED)
            if max_wall and time.time() - t_start > max_wall:
                # a check must end on every tree: give up, report the exploration as incomplete (never as success)
                total.add('errors', dict(task='<run>', error=f'wall-clock limit of {int(max_wall)} s exceeded: exploration incomplete '
                                                             f'({len(pending)} jobs unfinished)', tb=''))
                for p_ in list(pending):
                    p_.cancel()
                for proc in list(getattr(ex, '_processes', {}).values()):
                    try:
                        proc.terminate()
                    except Exception:
                        pass
                pending = set()
                break
            for f in done:
                try:
                    name, acc, roots = f.result()
                except Exception as e:      # e.g. BrokenProcessPool when a worker was killed (out of memory): inconclusive, never success
                    total.add('errors', dict(task='<worker pool>', error=f'{type(e).__name__}: {e}', tb=''))
                    for p_ in list(pending):
                        p_.cancel()
                    pending = set()
                    break
                total.merge(acc)
                per_task.setdefault(name, Acc()).merge(acc)
                if total.get('#candidates') >= 48:
                    # the check fails anyway: do not start further sub-jobs, drop the ones not started yet
                    for p_ in list(pending):
                        if p_.cancel():
                            pending.discard(p_)
                    total.inc('jobs_dropped_after_candidates', len(roots))
                    continue
                for r in roots:
                    t = tmap[name]
                    pending.add(ex.submit(_job, modname, t, r, None, t.get('deadline')))
    return total, per_task


def load_known_findings():
    path = os.path.join(VERIF, 'known_findings.txt')
    out = []
    if os.path.exists(path):
        for line in open(path):
            line = line.strip()
            if line.startswith('finding:'):
                parts = dict(kv.split('=', 1) for kv in line[len('finding:'):].split() if '=' in kv)
                what = line.split(' what=', 1)[1] if ' what=' in line else ''
                out.append(dict(property=parts.get('property'), sig=parts.get('sig'), what=what))
    return out


def replay_file(path):
    """run the concrete property check of a replay file on the real code (no shims) -> (reproduced, output)"""
    env = dict(os.environ)
    env['PYTHONPATH'] = REPO + os.pathsep + VERIF
    env.pop('PYTENET_VERIF', None)
    py = REPLAY_PY if os.path.exists(REPLAY_PY) else sys.executable
    p = subprocess.run([py, '-W', 'ignore', '-m', 'harness.concrete', path], cwd=VERIF, env=env,
                       capture_output=True, text=True, timeout=600)
    out = (p.stdout + p.stderr).strip()
    if p.returncode == 1:
        return True, out
    if p.returncode == 0:
        return False, out
    return None, out


def write_replay(pid, kind, inputs, meta=None):
    os.makedirs(os.path.join(VERIF, 'replays'), exist_ok=True)
    body = dict(property=pid, kind=kind, inputs=inputs, meta=meta or {})
    blob = json.dumps(body, sort_keys=True, default=str)
    h = hashlib.sha1(blob.encode()).hexdigest()[:12]
    path = os.path.join(VERIF, 'replays', f'{pid}-{h}.json')
    with open(path, 'w') as f:
        f.write(blob)
    return path


def main(modname):
    ap = argparse.ArgumentParser()
    ap.add_argument('--tier', default=os.environ.get('VERIF_TIER', 'quick'), choices=['quick', 'thorough'])
    ap.add_argument('--replay', default=None)
    ap.add_argument('--procs', type=int, default=int(os.environ.get('VERIF_PROCS', '16')))
    ap.add_argument('--only', default=None, help='substring filter on task names (debugging)')
    args = ap.parse_args()
    _dump_on_usr1()
    H = importlib.import_module(modname)
    pid = H.PID
    seed = int(os.environ.get('VERIF_SEED', '0') or 0)

    if args.replay:
        rep, out = replay_file(args.replay)
        print(out)
        if rep:
            print(f'VIOLATION property={pid} replay={args.replay}')
            sys.exit(1)
        sys.exit(0 if rep is False else 2)

    t0 = time.time()
    problems = []
    os.environ.setdefault('VERIF_XCHECK', '40' if args.tier == 'thorough' else '6')
    os.environ.setdefault('VERIF_MAX_WALL', '7200' if args.tier == 'thorough' else '1500')   # hard end of the exploration (inconclusive, exit 2)     # cvc5 re-decides this many VC queries per worker
    # 1. Serval-style validation of the encoding: concrete inputs through the shimmed path vs plain NumPy
    val = {}
    sweep_violations = []
    try:
        val = H.validate(seed, args.tier) or {}
    except ConcreteViolation as cv:
        path = write_replay(pid, cv.kind, cv.inputs,
                            dict(found_by='concrete validation sweep on the real code (sampling), not by the solver', detail=cv.fails[:3]))
        rep, out = replay_file(path)
        if rep:
            sweep_violations.append((f'sweep:{cv.kind}', path, out, dict(kind=cv.kind)))
        else:
            problems.append(f'validation sweep reported {cv.fails[:2]} but the replay did not reproduce it')
        val = dict(validation_sweep='violation found on the real code', detail=cv.fails[:3])
    except Exception as e:
        problems.append(f'encoding validation failed: {type(e).__name__}: {e}')
        traceback.print_exc()
    # 2. exploration
    tasks = H.tasks(args.tier, seed)
    if args.only:
        tasks = [t for t in tasks if args.only in t['name']]
    total, per_task = run_parallel(modname, tasks, args.procs)
    for e in total.l.get('errors', []):
        problems.append(f"task {e['task']}: {e['error']}")
        print(e.get('tb', ''), file=sys.stderr)
    # 3. candidates -> replay on the real code
    known = [k for k in load_known_findings() if k['property'] == pid]
    violations = list(sweep_violations)
    known_hits = []
    unreproduced = []
    seen_sig = {}
    for cand in total.l.get('candidates', []):
        sig = cand.get('sig', cand.get('kind'))
        if seen_sig.get(sig, 0) >= 3:
            continue
        seen_sig[sig] = seen_sig.get(sig, 0) + 1
        reproduced = None
        last = ''
        for inputs in cand.get('insts', []):
            path = write_replay(pid, cand['kind'], inputs, dict(task=cand.get('task'), detail=cand.get('detail'), sig=sig))
            rep, out = replay_file(path)
            last = out
            if rep:
                reproduced = (path, out)
                break
        if reproduced:
            k = next((k for k in known if k['sig'] == sig), None)
            if k:
                known_hits.append((k, reproduced[0]))
            else:
                violations.append((sig, reproduced[0], reproduced[1], cand))
        else:
            unreproduced.append((sig, cand.get('task'), cand.get('detail'), last[-300:]))
    # 4. vacuity: required reachability marks
    marks = {k[5:]: v for k, v in total.c.items() if k.startswith('mark:')}
    for m in H.required_marks(args.tier):
        if marks.get(m, 0) <= 0:
            problems.append(f'reachability witness "{m}" was never hit')
    if total.get('paths') <= 0:
        problems.append('no path reached the end of the harness')
    wall = time.time() - t0
    # 5. evidence
    ev = H.evidence(args.tier, seed, total, per_task, val)
    ev.setdefault('property_id', pid)
    ev['tier'] = args.tier
    ev['seed'] = seed
    ev['wall_s'] = round(wall, 2)
    ev['violations'] = len(violations)
    cov = ev.setdefault('coverage', {})
    cov.setdefault('evaluations', int(total.get('paths')))
    cov['solver'] = dict(
        feasibility_queries_lia=int(total.get('q_lia')), feasibility_queries_lra=int(total.get('q_lra')),
        feasibility_queries_answered_by_cached_model=int(total.get('q_saved')),
        feasibility_seconds_lia=round(total.get('t_lia'), 2), feasibility_seconds_lra=round(total.get('t_lra'), 2),
        feasibility_unknown=int(total.get('unknown_feas')),
        vc_queries=int(total.get('vc_queries') + total.get('vc_int_queries')),
        vc_goals=int(total.get('vc_goals')),
        vc_solver_seconds=round(total.get('vc_t_solver') + total.get('vc_int_t'), 2),
        vc_build_seconds=round(total.get('vc_t_build'), 2), vc_hypothesis_products=int(total.get('vc_products')),
        path_cpu_seconds=round(total.get('t_paths'), 2))
    if total.get('truncated'):
        problems.append(f"{int(total.get('truncated'))} jobs were cut off by their deadline: exploration incomplete")
    cov['paths'] = dict(completed=int(total.get('paths')), dead=int(total.get('dead_paths')),
                        budget_exceeded=int(total.get('budget_paths')), truncated_jobs=int(total.get('truncated')))
    cov['reachability_marks'] = {k: int(v) for k, v in sorted(marks.items())}
    cov['per_task'] = {n: dict(paths=int(a.get('paths')), cpu_s=round(a.get('t_job'), 1)) for n, a in sorted(per_task.items())}
    cov['candidates'] = dict(raised=int(total.get('#candidates')), reproduced=len(violations) + len(known_hits),
                             not_reproduced=len(unreproduced))
    cov['encoding_validation'] = val
    cov['cross_solver'] = dict(solver='cvc5 (Python API) on the SMT-LIB dump of sampled z3 QF_LRA VC queries', queries=int(total.get('xcheck_queries')),
                               agree=int(total.get('xcheck_agree')), cvc5_unknown=int(total.get('xcheck_cvc5_unknown')),
                               disagreements=total.l.get('xcheck_disagreements', []), seconds=round(total.get('xcheck_seconds'), 1))
    if total.l.get('xcheck_disagreements'):
        problems.append(f"cross-solver disagreement on {len(total.l['xcheck_disagreements'])} VC queries: {total.l['xcheck_disagreements'][:3]}")
    cov['problems'] = problems
    os.makedirs(os.path.join(VERIF, 'evidence'), exist_ok=True)
    with open(os.path.join(VERIF, 'evidence', f'{pid}.json'), 'w') as f:
        json.dump(ev, f, indent=1, default=str)
    # 6. verdict
    print(f'[{pid}] tier={args.tier} tasks={len(tasks)} paths={int(total.get("paths"))} '
          f'vc_queries={int(total.get("vc_queries") + total.get("vc_int_queries"))} '
          f'feas_queries={int(total.get("q_lia") + total.get("q_lra"))} wall={wall:.1f}s')
    for k, path in known_hits:
        print(f'KNOWN-FINDING: property={pid} {k["what"]} (replay={path})')
    for sig, path, out, cand in violations:
        print(out[-600:])
        print(f'VIOLATION property={pid} replay={path}')
    if violations:
        sys.exit(1)
    for u in unreproduced:
        print(f'INCONCLUSIVE property={pid} candidate not reproduced on the real code: {u}')
    for p in problems:
        print(f'HARNESS-PROBLEM property={pid} {p}')
    if unreproduced or problems:
        sys.exit(2)
    sys.exit(0)
