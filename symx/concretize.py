"""
symx.concretize -- turn a symbolic path into concrete inputs for replay on the real code.

Only *input* variables need values (outputs of LAPACK stubs are determined by the inputs when the real
routine runs).  Integer inputs come from the z3 model of the integer path condition; real inputs that
occur in input-only path atoms come from a (non-linearised) z3 query; everything else is drawn from a
seeded generator.
"""
import os
import random
import sys
import threading
import time
from fractions import Fraction
import numpy as np
import z3

from .poly import VARS, VKIND, VROLE, Sym, S, peval, pvars, Atom as Atom_


_CTX = [None]


def _ctx():
    # own context: interrupting it (hard limit below) can never cancel a query of the path solver
    if _CTX[0] is None:
        _CTX[0] = z3.Context()
    return _CTX[0]


def _check(s, hard_s=8.0):
    """s.check() with a hard wall-clock limit: z3's soft timeout is ignored inside some non-linear queries"""
    t = threading.Timer(hard_s, s.ctx.interrupt)
    t.start()
    t0 = time.time()
    try:
        r = s.check()
    except z3.Z3Exception:
        r = z3.unknown
    finally:
        t.cancel()
    if os.environ.get('VERIF_DEBUG_CONC'):
        print(f'[concretize] check -> {r} in {time.time() - t0:.1f}s (limit {hard_s}s)', file=sys.stderr, flush=True)
    return r


def _z3poly(p, zv):
    tot = z3.RealVal(0, _ctx())
    for m, c in p.items():
        t = z3.RealVal(str(c), _ctx())
        for v, e in m:
            for _ in range(e):
                t = t * zv[v]
        tot = tot + t
    return tot


def _holds(a, env):
    v = peval(a.p, env)
    return {'==': v == 0, '!=': v != 0, '<': v < 0, '<=': v <= 0}[a.op]


NICE_VECTORS = {1: [(1,), (2,)], 2: [(3, 4), (4, 3), (1, 1)], 3: [(1, 2, 2), (2, 1, 2), (2, 2, 1), (2, 3, 6)],
                4: [(1, 1, 1, 1), (2, 2, 2, 2), (1, 1, 1, 3), (4, 4, 7, 0)]}


_SPENT = [0.0]      # seconds spent on instantiation in the current job (reset by the runner at the start of every job)


def reset_budget():
    _SPENT[0] = 0.0


def _partial(p, env):
    """substitute the (integer) variables of env into the polynomial dict p"""
    out = {}
    for m, c in p.items():
        rest = []
        for v, e in m:
            if v in env:
                c = c * env[v] ** e
            else:
                rest.append((v, e))
        if c:
            k = tuple(rest)
            out[k] = out.get(k, 0) + c
            if not out[k]:
                del out[k]
    return out


def _group(name):
    return name.split('.')[0].rstrip('0123456789_[],')


def goal_directed(eng, imodel, rng, seed, n=3, budget_s=24.0, max_vars=70, max_terms=6000):
    """
    Counterexample-guided instantiation: models of  path condition AND stub contracts / definitions AND NOT(failed VC)
    (non-linear z3 query under a hard limit).  Only a search heuristic: whatever comes out is replayed on the real
    code, which decides.  Returns a list of partial environments {real var -> Fraction}.
    """
    recs = getattr(eng, 'failed_goals', None) or []
    if not recs:
        return []
    neg = []
    for rec in recs[-6:]:
        for g in rec.get('goals', [])[:40]:
            neg.append(('!=', _partial(g, imodel)))
        for a in rec.get('atoms', [])[:40]:
            neg.append(('not' + a.op, _partial(a.p, imodel)))
    neg = [(op, q) for op, q in neg if q]
    if not neg:
        return []
    cons = [('==', _partial(h, imodel)) for h in eng.hyps if h]
    cons += [(a.op, _partial(a.p, imodel)) for a in eng.atoms if a.op != '==']
    cons = [(op, q) for op, q in cons if q and any(m for m in q)]
    V = set()
    for _, q in neg:
        V |= pvars(q)
    # close over the constraints that mention these variables
    changed = True
    used = [False] * len(cons)
    while changed:
        changed = False
        for i, (op, q) in enumerate(cons):
            if not used[i] and pvars(q) & V:
                used[i] = True
                if not pvars(q) <= V:
                    V |= pvars(q)
                changed = True
    cons = [c for c, u in zip(cons, used) if u]
    if len(V) > max_vars or sum(len(q) for _, q in cons + neg) > max_terms:
        return []
    t_start = time.time()
    zv = {v: z3.Real('x!' + VARS[v], _ctx()) for v in V}
    sol = z3.Solver(ctx=_ctx())
    sol.set('timeout', 6000)
    for op, q in cons:
        e = _z3poly(q, zv)
        sol.add({'==': e == 0, '!=': e != 0, '<': e < 0, '<=': e <= 0}[op])
    lits = []
    for op, q in neg:
        e = _z3poly(q, zv)
        lits.append({'!=': e != 0, 'not==': e != 0, 'not!=': e == 0, 'not<': e >= 0, 'not<=': e > 0}[op])
    sol.add(z3.Or(*lits) if len(lits) > 1 else lits[0])
    in_vars = sorted(v for v in V if VROLE[v] == 'input')
    groups = {}
    for v in in_vars:
        groups.setdefault(_group(VARS[v]), []).append(v)
    envs = []
    for k in range(n * 2):
        if time.time() - t_start > budget_s or len(envs) >= n:
            break
        sol.push()
        if k > 0:
            # prefer witnesses that survive floating point: integer vectors with an integer Euclidean norm, small integers
            for gname, vs in sorted(groups.items()):
                pool = NICE_VECTORS.get(len(vs))
                if pool and rng.random() < 0.8:
                    vec = pool[(k - 1 + rng.randrange(len(pool))) % len(pool)]
                    sol.push()
                    for v, x in zip(vs, vec):
                        sol.add(zv[v] == x)
                    if _check(sol, 6.0) != z3.sat:
                        sol.pop()
                else:
                    for v in vs[:6]:
                        sol.push()
                        sol.add(zv[v] == rng.choice((1, 2, 3, 4, -1, -2)))
                        if _check(sol, 4.0) != z3.sat:
                            sol.pop()
                if time.time() - t_start > budget_s:
                    break
        r = _check(sol, 8.0)
        if r == z3.unknown and k == 0 and len(V) > 16:
            break               # the solver cannot handle the system at all: leave it to the plain path witnesses
        if r == z3.sat:
            m = sol.model()
            env = {}
            ok = True
            for v in in_vars:
                val = m.eval(zv[v], model_completion=True)
                if z3.is_rational_value(val):
                    env[v] = Fraction(val.numerator_as_long(), val.denominator_as_long())
                else:
                    try:
                        env[v] = Fraction(val.approx(20).as_fraction())
                    except Exception:
                        ok = False
            if ok and env not in envs:
                envs.append(env)
        elif r == z3.unsat and k == 0:
            while sol.num_scopes():
                sol.pop()
            return []           # the failed VC has no real counterexample on this path: nothing to find
        while sol.num_scopes():
            sol.pop()
    return envs



def instantiate(eng, seed=0, n=4, lo=-3, hi=3, pin_zero=True, budget_s=30.0):
    """list of up to n environments {var index -> Fraction/int} for all input variables"""
    rng = random.Random(seed)
    imodel = eng.int_model()
    if imodel is None:
        return []
    icex = getattr(eng, 'int_cex', None)        # model of the integer path condition that also violates a failed integer VC
    inputs = [v for v in range(len(VARS)) if VROLE[v] == 'input']
    rvars = [v for v in inputs if VKIND[v] == 'real']
    inset = set(inputs)
    # auxiliary variables (sqrt / inverse / let) are functions of the inputs through their defining equations; atoms over
    # inputs and such auxiliaries constrain the inputs too (e.g. "tolerance equals a cumulative weight")
    aux = {v for v in range(len(VARS)) if VROLE[v] == 'aux'}
    defs = [Atom_(h, '==') for h, t in zip(eng.hyps, eng.hyp_tags) if t in ('sqrt', 'inv', 'let') and pvars(h) <= (inset | aux)]
    defs += [a for a in eng.atoms if a.op != '==' and a.vars() and a.vars() <= aux]      # e.g. sqrt >= 0
    in_atoms = [a for a in eng.atoms if a.vars() and a.vars() <= (inset | aux) and any(VKIND[v] == 'real' for v in a.vars())
                and not (a.vars() <= aux)]
    used_aux = set()
    for a in in_atoms:
        used_aux |= a.vars() & aux
    # close under the definitions of the auxiliaries that occur
    changed = True
    while changed:
        changed = False
        for d in defs:
            if d.vars() & used_aux and not (d.vars() & aux) <= used_aux:
                used_aux |= d.vars() & aux; changed = True
    defs = [d for d in defs if d.vars() & used_aux]
    in_atoms = in_atoms + defs
    constrained = set()
    for a in in_atoms:
        constrained |= {v for v in a.vars() if VKIND[v] == 'real'}
    envs = []
    zero_forced = set()
    if pin_zero and len(rvars) <= 64:
        from . import prover
        try:
            eng.promote_zeros()
            zero_forced = set(prover.forced_zero_inputs(eng, rvars))
        except Exception:
            zero_forced = set()
    imodels = [icex, imodel] if icex else [imodel]
    # a job that raises many candidates (a broken tree) must still terminate quickly: the budget shrinks with the time already spent
    t_enter = time.time()
    if _SPENT[0] > 90:
        budget_s = min(budget_s, 8.0)
    if _SPENT[0] > 30:
        n = min(n, 2)
    # counterexample-guided instantiations first (models of path AND NOT failed VC), then plain path witnesses
    try:
        for im in (imodels if _SPENT[0] <= 180 else []):
            for part in goal_directed(eng, im, rng, seed, n=3, budget_s=budget_s * 0.6 / len(imodels)):
                env = dict(im)
                for v in rvars:
                    if v in part:
                        env[v] = part[v]
                    elif v in zero_forced:
                        env[v] = 0
                    else:
                        env[v] = Fraction(rng.randint(1, 9) * rng.choice((-1, 1)), rng.choice((1, 2, 4)))
                envs.append(env)
    except z3.Z3Exception:
        pass
    n = n + len(envs)
    t_start = time.time()
    for k in range(n * 3):
        if time.time() - t_start > budget_s:
            break
        env = dict(imodels[k % len(imodels)])
        for v in zero_forced:
            env[v] = 0
        for v in rvars:
            if v in zero_forced:
                continue
            if v not in constrained:
                num = rng.randint(1, 9) * rng.choice((-1, 1))
                env[v] = Fraction(num, rng.choice((1, 2, 3, 4)))
        if constrained:
            zv = {v: z3.Real('x!' + VARS[v], _ctx()) for v in constrained}
            s = z3.Solver(ctx=_ctx())
            s.set('timeout', 4000)
            s.set('random_seed', seed + k)
            for v in env:
                if v not in zv:
                    zv[v] = z3.RealVal(str(env[v]), _ctx())
            for v in zero_forced:
                if v in constrained:
                    s.add(zv[v] == 0)
            for a in in_atoms:
                e = _z3poly(a.p, zv)
                s.add({'==': e == 0, '!=': e != 0, '<': e < 0, '<=': e <= 0}[a.op])
            # try to pin some constrained variables to random values to get generic witnesses
            order = [v for v in constrained if v not in aux]; rng.shuffle(order)
            for v in order[:8]:
                if time.time() - t_start > budget_s:
                    break
                val = Fraction(rng.randint(1, 9) * rng.choice((-1, 1)), rng.choice((1, 2, 3)))
                s.push()
                s.add(zv[v] == z3.RealVal(str(val), _ctx()))
                if _check(s) != z3.sat:
                    s.pop()
            # prefer witnesses in which constrained inputs do not vanish (a zero input is often an excluded degenerate case)
            for v in order[:12]:
                if time.time() - t_start > budget_s:
                    break
                s.push()
                s.add(zv[v] != 0)
                if _check(s) != z3.sat:
                    s.pop()
            if _check(s) != z3.sat:
                continue
            m = s.model()
            ok = True
            for v in constrained:
                val = m.eval(zv[v], model_completion=True)
                if z3.is_rational_value(val):
                    env[v] = Fraction(val.numerator_as_long(), val.denominator_as_long())
                else:
                    try:
                        env[v] = Fraction(val.approx(20).as_fraction())
                    except Exception:
                        ok = False
            if not ok:
                continue
        envs.append(env)
        if len(envs) >= n:
            break
    _SPENT[0] += time.time() - t_enter
    return envs


def evaluate(x, env):
    """evaluate Sym / nested containers of Sym to JSON-able numbers (complex as {'re','im'})"""
    if isinstance(x, np.ndarray):
        return [evaluate(y, env) for y in x] if x.ndim > 0 else evaluate(x.item(), env)
    if isinstance(x, (list, tuple)):
        return [evaluate(y, env) for y in x]
    if isinstance(x, dict):
        return {k: evaluate(v, env) for k, v in x.items()}
    if isinstance(x, Sym):
        re = peval(x.t, env)
        if x.u is None:
            return _num(re)
        return {'re': _num(re), 'im': _num(peval(x.u, env))}
    if isinstance(x, (np.integer,)):
        return int(x)
    if isinstance(x, (np.floating,)):
        return float(x)
    if isinstance(x, (complex, np.complexfloating)):
        x = complex(x)
        return {'re': x.real, 'im': x.imag}
    if isinstance(x, (np.bool_,)):
        return bool(x)
    return x


def _num(v):
    if isinstance(v, int):
        return v
    if isinstance(v, Fraction):
        if v.denominator == 1:
            return v.numerator
        return {'frac': [v.numerator, v.denominator]}
    return v


def decode(x):
    """inverse of evaluate for replay: JSON -> python numbers / nested lists"""
    if isinstance(x, dict):
        if 'frac' in x:
            return x['frac'][0] / x['frac'][1]
        if 're' in x and 'im' in x and len(x) == 2:
            return complex(decode(x['re']), decode(x['im']))
        return {k: decode(v) for k, v in x.items()}
    if isinstance(x, list):
        return [decode(y) for y in x]
    return x
