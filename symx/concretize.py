"""
symx.concretize -- turn a symbolic path into concrete inputs for replay on the real code.

Only *input* variables need values (outputs of LAPACK stubs are determined by the inputs when the real
routine runs).  Integer inputs come from the z3 model of the integer path condition; real inputs that
occur in input-only path atoms come from a (non-linearised) z3 query; everything else is drawn from a
seeded generator.
"""
import random
import time
from fractions import Fraction
import numpy as np
import z3

from .poly import VARS, VKIND, VROLE, Sym, S, peval, pvars, Atom as Atom_


def _z3poly(p, zv):
    tot = z3.RealVal(0)
    for m, c in p.items():
        t = z3.RealVal(str(c))
        for v, e in m:
            for _ in range(e):
                t = t * zv[v]
        tot = tot + t
    return tot


def _holds(a, env):
    v = peval(a.p, env)
    return {'==': v == 0, '!=': v != 0, '<': v < 0, '<=': v <= 0}[a.op]


def instantiate(eng, seed=0, n=4, lo=-3, hi=3, pin_zero=True, budget_s=40.0):
    """list of up to n environments {var index -> Fraction/int} for all input variables"""
    rng = random.Random(seed)
    imodel = eng.int_model()
    if imodel is None:
        return []
    inputs = [v for v in range(len(VARS)) if VROLE[v] == 'input']
    rvars = [v for v in inputs if VKIND[v] == 'real']
    inset = set(inputs)
    # auxiliary variables (sqrt / inverse / let) are functions of the inputs through their defining equations; atoms over
    # inputs and such auxiliaries constrain the inputs too (e.g. "tolerance equals a cumulative weight")
    aux = {v for v in range(len(VARS)) if VROLE[v] == 'aux'}
    defs = [Atom_(h, '==') for h, t in zip(eng.hyps, eng.hyp_tags) if t in ('sqrt', 'inv', 'let') and pvars(h) <= (inset | aux)]
    defs += [a for a in eng.atoms if a.op != '==' and a.vars() and a.vars() <= aux]      # e.g. sqrt >= 0
    in_atoms = [a for a in eng.atoms if a.vars() and a.vars() <= (inset | aux) and any(VKIND[v] == 'real' for v in a.vars())
                and not (a.vars() <= aux)]
    used_aux = set()
    for a in in_atoms:
        used_aux |= a.vars() & aux
    # close under the definitions of the auxiliaries that occur
    changed = True
    while changed:
        changed = False
        for d in defs:
            if d.vars() & used_aux and not (d.vars() & aux) <= used_aux:
                used_aux |= d.vars() & aux; changed = True
    defs = [d for d in defs if d.vars() & used_aux]
    in_atoms = in_atoms + defs
    constrained = set()
    for a in in_atoms:
        constrained |= {v for v in a.vars() if VKIND[v] == 'real'}
    envs = []
    zero_forced = set()
    if pin_zero and len(rvars) <= 64:
        from . import prover
        try:
            eng.promote_zeros()
            zero_forced = set(prover.forced_zero_inputs(eng, rvars))
        except Exception:
            zero_forced = set()
    t_start = time.time()
    for k in range(n * 3):
        if time.time() - t_start > budget_s:
            break
        env = dict(imodel)
        for v in zero_forced:
            env[v] = 0
        for v in rvars:
            if v in zero_forced:
                continue
            if v not in constrained:
                num = rng.randint(1, 9) * rng.choice((-1, 1))
                env[v] = Fraction(num, rng.choice((1, 2, 3, 4)))
        if constrained:
            zv = {v: z3.Real('x!' + VARS[v]) for v in constrained}
            s = z3.Solver()
            s.set('timeout', 4000)
            s.set('random_seed', seed + k)
            for v in env:
                if v not in zv:
                    zv[v] = z3.RealVal(str(env[v]))
            for v in zero_forced:
                if v in constrained:
                    s.add(zv[v] == 0)
            for a in in_atoms:
                e = _z3poly(a.p, zv)
                s.add({'==': e == 0, '!=': e != 0, '<': e < 0, '<=': e <= 0}[a.op])
            # try to pin some constrained variables to random values to get generic witnesses
            order = [v for v in constrained if v not in aux]; rng.shuffle(order)
            for v in order[:8]:
                if time.time() - t_start > budget_s:
                    break
                val = Fraction(rng.randint(1, 9) * rng.choice((-1, 1)), rng.choice((1, 2, 3)))
                s.push()
                s.add(zv[v] == z3.RealVal(str(val)))
                if s.check() != z3.sat:
                    s.pop()
            # prefer witnesses in which constrained inputs do not vanish (a zero input is often an excluded degenerate case)
            for v in order:
                s.push()
                s.add(zv[v] != 0)
                if s.check() != z3.sat:
                    s.pop()
            if s.check() != z3.sat:
                continue
            m = s.model()
            ok = True
            for v in constrained:
                val = m.eval(zv[v], model_completion=True)
                if z3.is_rational_value(val):
                    env[v] = Fraction(val.numerator_as_long(), val.denominator_as_long())
                else:
                    try:
                        env[v] = Fraction(val.approx(20).as_fraction())
                    except Exception:
                        ok = False
            if not ok:
                continue
        envs.append(env)
        if len(envs) >= n:
            break
    return envs


def evaluate(x, env):
    """evaluate Sym / nested containers of Sym to JSON-able numbers (complex as {'re','im'})"""
    if isinstance(x, np.ndarray):
        return [evaluate(y, env) for y in x] if x.ndim > 0 else evaluate(x.item(), env)
    if isinstance(x, (list, tuple)):
        return [evaluate(y, env) for y in x]
    if isinstance(x, dict):
        return {k: evaluate(v, env) for k, v in x.items()}
    if isinstance(x, Sym):
        re = peval(x.t, env)
        if x.u is None:
            return _num(re)
        return {'re': _num(re), 'im': _num(peval(x.u, env))}
    if isinstance(x, (np.integer,)):
        return int(x)
    if isinstance(x, (np.floating,)):
        return float(x)
    if isinstance(x, (complex, np.complexfloating)):
        x = complex(x)
        return {'re': x.real, 'im': x.imag}
    if isinstance(x, (np.bool_,)):
        return bool(x)
    return x


def _num(v):
    if isinstance(v, int):
        return v
    if isinstance(v, Fraction):
        if v.denominator == 1:
            return v.numerator
        return {'frac': [v.numerator, v.denominator]}
    return v


def decode(x):
    """inverse of evaluate for replay: JSON -> python numbers / nested lists"""
    if isinstance(x, dict):
        if 'frac' in x:
            return x['frac'][0] / x['frac'][1]
        if 're' in x and 'im' in x and len(x) == 2:
            return complex(decode(x['re']), decode(x['im']))
        return {k: decode(v) for k, v in x.items()}
    if isinstance(x, list):
        return [decode(y) for y in x]
    return x
