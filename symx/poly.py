"""
symx.poly -- exact symbolic scalars for executing the unmodified pytenet code.

A `Sym` is a complex number whose real and imaginary parts are multivariate polynomials with
exact rational coefficients in named variables.  Variables are typed 'int' (charges, ids) or
'real' (tensor entries, coefficients, tolerances, outputs of LAPACK contract stubs).

Polynomials are plain dicts  {monomial: coeff}  with  monomial = tuple of (var_index, exponent)
sorted by var_index, and coeff an `int` or a `fractions.Fraction` (never 0).

Comparisons return `Atom`s; taking the truth value of an Atom asks the active engine to branch.
"""
from fractions import Fraction
import numbers
import numpy as np

# ---------------------------------------------------------------------------------------------
# variable registry (reset by the engine at the start of every path)

VARS = []      # names
VKIND = []     # 'int' | 'real'
VROLE = []     # 'input' | 'stub' | 'aux'


def reset_vars():
    VARS.clear(); VKIND.clear(); VROLE.clear()
    _MM.clear()


def newvar(name, kind='real', role='input'):
    VARS.append(name); VKIND.append(kind); VROLE.append(role)
    return len(VARS) - 1


# ---------------------------------------------------------------------------------------------
# monomials

_MM = {}


def mono_mul(a, b):
    if not a:
        return b
    if not b:
        return a
    key = (a, b)
    r = _MM.get(key)
    if r is not None:
        return r
    i = j = 0
    la, lb = len(a), len(b)
    out = []
    while i < la and j < lb:
        va, ea = a[i]; vb, eb = b[j]
        if va == vb:
            out.append((va, ea + eb)); i += 1; j += 1
        elif va < vb:
            out.append(a[i]); i += 1
        else:
            out.append(b[j]); j += 1
    if i < la:
        out.extend(a[i:])
    if j < lb:
        out.extend(b[j:])
    r = tuple(out)
    if len(_MM) < 2000000:
        _MM[key] = r
    return r


def mono_div(m, g):
    """quotient g / m if the monomial m divides g, else None"""
    if not m:
        return g
    d = dict(g)
    for v, e in m:
        f = d.get(v, 0)
        if f < e:
            return None
        if f == e:
            del d[v]
        else:
            d[v] = f - e
    return tuple(sorted(d.items()))


def mono_deg(m):
    return sum(e for _, e in m)


def mono_str(m):
    if not m:
        return '1'
    return '*'.join(VARS[v] if e == 1 else f'{VARS[v]}^{e}' for v, e in m)


# ---------------------------------------------------------------------------------------------
# polynomial dict helpers

def _nc(c):
    if type(c) is Fraction and c.denominator == 1:
        return c.numerator
    return c


def pconst(c):
    c = _nc(c)
    return {(): c} if c != 0 else {}


def padd(a, b):
    if not b:
        return a
    if not a:
        return b
    if len(a) < len(b):
        a, b = b, a
    t = dict(a)
    for m, c in b.items():
        v = t.get(m)
        if v is None:
            t[m] = c
        else:
            v = v + c
            if v == 0:
                del t[m]
            else:
                t[m] = _nc(v) if type(v) is Fraction else v
    return t


def pneg(a):
    return {m: -c for m, c in a.items()}


def psub(a, b):
    if not b:
        return a
    return padd(a, pneg(b))


def pscale(a, c):
    if c == 0 or not a:
        return {}
    if c == 1:
        return a
    if type(c) is Fraction:
        return {m: _nc(v * c) for m, v in a.items()}
    return {m: v * c for m, v in a.items()}


def pmul(a, b):
    if not a or not b:
        return {}
    if len(a) == 1:
        (m1, c1), = a.items()
        if not m1:
            return pscale(b, c1)
    if len(b) == 1:
        (m2, c2), = b.items()
        if not m2:
            return pscale(a, c2)
    t = {}
    for m1, c1 in a.items():
        for m2, c2 in b.items():
            m = mono_mul(m1, m2)
            v = t.get(m)
            c = c1 * c2
            if v is None:
                t[m] = c
            else:
                v = v + c
                if v == 0:
                    del t[m]
                else:
                    t[m] = v
    if any(type(c) is Fraction for c in t.values()):
        t = {m: _nc(c) for m, c in t.items()}
    return t


def pmulmono(a, q):
    if not q:
        return a
    return {mono_mul(m, q): c for m, c in a.items()}


def pis_const(a):
    return not a or (len(a) == 1 and () in a)


def pcval(a):
    return a.get((), 0)


def pvars(a):
    s = set()
    for m in a:
        for v, _ in m:
            s.add(v)
    return s


def pdeg(a):
    return max((mono_deg(m) for m in a), default=0)


def pstr(a, maxterms=8):
    if not a:
        return '0'
    items = list(a.items())
    s = ' + '.join((f'{c}*' if c != 1 or not m else '') + (mono_str(m) if m else '') if m else str(c)
                   for m, c in items[:maxterms])
    if len(items) > maxterms:
        s += f' + ...({len(items)} terms)'
    return s


def peval(a, env):
    """evaluate with env: var index -> number (Fraction / float / complex)"""
    tot = 0
    for m, c in a.items():
        v = c
        for x, e in m:
            v = v * env[x] ** e
        tot = tot + v
    return tot


# ---------------------------------------------------------------------------------------------
# conversion of concrete numbers

def _frac(x):
    if isinstance(x, (bool, np.bool_)):
        return int(x)
    if isinstance(x, (int, np.integer)):
        return int(x)
    if isinstance(x, Fraction):
        return _nc(x)
    if isinstance(x, (float, np.floating)):
        x = float(x)
        if x != x or x in (float('inf'), float('-inf')):
            raise SymUnsupported(f'non-finite float {x} in symbolic arithmetic')
        if x == int(x) and abs(x) < 2**53:
            return int(x)
        return Fraction(x)
    return None


class SymUnsupported(Exception):
    """raised when the code under analysis does something the symbolic scalars cannot follow"""


class SymDivisionByZero(ZeroDivisionError):
    """division by a symbolic quantity on a path where it is zero"""


def tosym(x):
    if type(x) is Sym:
        return x
    f = _frac(x)
    if f is not None:
        return Sym(pconst(f))
    if isinstance(x, (complex, np.complexfloating)):
        x = complex(x)
        im = _frac(x.imag)
        return Sym(pconst(_frac(x.real)), pconst(im) if im != 0 else None)
    return None


# ---------------------------------------------------------------------------------------------

ABSTRACT = [None]     # size threshold for let-abstraction of products (set per path by a harness; None = off)


def _maybe_abstract(s):
    th = ABSTRACT[0]
    if th is not None and (len(s.t) > th or (s.u is not None and len(s.u) > th)):
        from . import engine
        return engine.current().abstract(s)
    return s


class Sym:
    """complex scalar with polynomial real part `t` and imaginary part `u` (None = identically 0)"""
    __slots__ = ('t', 'u')

    def __init__(self, t=None, u=None):
        self.t = t if t is not None else {}
        self.u = u if u else None

    # -- construction -------------------------------------------------------------------
    @staticmethod
    def const(c):
        s = tosym(c)
        assert s is not None
        return s

    @staticmethod
    def var(i):
        return Sym({((i, 1),): 1})

    # -- inspection ---------------------------------------------------------------------
    def is_real(self):
        return self.u is None

    def is_const(self):
        return pis_const(self.t) and (self.u is None or pis_const(self.u))

    def is_zero(self):
        return not self.t and self.u is None

    def cval(self):
        if self.u is None:
            return pcval(self.t)
        return complex(float(pcval(self.t)), float(pcval(self.u)))

    def nterms(self):
        return len(self.t) + (len(self.u) if self.u else 0)

    # -- arithmetic ---------------------------------------------------------------------
    def __add__(self, o):
        o = tosym(o)
        if o is None:
            return NotImplemented
        if self.u is None and o.u is None:
            r = Sym(padd(self.t, o.t))
        else:
            r = Sym(padd(self.t, o.t), padd(self.u or {}, o.u or {}))
        if ABSTRACT[0] is not None:
            return _maybe_abstract(r)
        return r
    __radd__ = __add__

    def __neg__(self):
        return Sym(pneg(self.t), pneg(self.u) if self.u else None)

    def __pos__(self):
        return self

    def __sub__(self, o):
        o = tosym(o)
        if o is None:
            return NotImplemented
        if self.u is None and o.u is None:
            return Sym(psub(self.t, o.t))
        return Sym(psub(self.t, o.t), psub(self.u or {}, o.u or {}))

    def __rsub__(self, o):
        o = tosym(o)
        if o is None:
            return NotImplemented
        return o.__sub__(self)

    def __mul__(self, o):
        o = tosym(o)
        if o is None:
            return NotImplemented
        if self.u is None and o.u is None:
            r = Sym(pmul(self.t, o.t))
        else:
            a, b = self.t, self.u or {}
            c, d = o.t, o.u or {}
            r = Sym(psub(pmul(a, c), pmul(b, d)), padd(pmul(a, d), pmul(b, c)))
        if ABSTRACT[0] is not None:
            return _maybe_abstract(r)
        return r
    __rmul__ = __mul__

    def __truediv__(self, o):
        o = tosym(o)
        if o is None:
            return NotImplemented
        return self * o.inverse()

    def __rtruediv__(self, o):
        o = tosym(o)
        if o is None:
            return NotImplemented
        return o * self.inverse()

    def __floordiv__(self, o):
        raise SymUnsupported('floor division of a symbolic scalar')

    def inverse(self):
        if self.u is None:
            if pis_const(self.t):
                c = pcval(self.t)
                if c == 0:
                    raise SymDivisionByZero('division by constant zero')
                return Sym(pconst(Fraction(1) / c))
            from . import engine
            return engine.current().inverse_of(self)
        # 1/(a+ib) = (a-ib)/(a^2+b^2)
        den = Sym(padd(pmul(self.t, self.t), pmul(self.u, self.u)))
        return self.conjugate() * den.inverse()

    def __pow__(self, k):
        if isinstance(k, Sym):
            if not k.is_const():
                raise SymUnsupported('symbolic exponent')
            k = k.cval()
        if isinstance(k, (float, np.floating)) and float(k) == int(k):
            k = int(k)
        if isinstance(k, (float, np.floating, Fraction)) and float(k) == 0.5:
            return self.sqrt()
        if not isinstance(k, (int, np.integer)):
            raise SymUnsupported(f'power {k!r} of a symbolic scalar')
        k = int(k)
        if k < 0:
            return (self ** (-k)).inverse()
        r = Sym(pconst(1))
        b = self
        while k:
            if k & 1:
                r = r * b
            k >>= 1
            if k:
                b = b * b
        return r

    def __lshift__(self, k):
        return self * (1 << int(k))

    def conjugate(self):
        if self.u is None:
            return self
        return Sym(self.t, pneg(self.u))
    conj = conjugate

    @property
    def real(self):
        if self.u is None:
            return self
        return Sym(self.t)

    @property
    def imag(self):
        return Sym(self.u or {})

    def abs2(self):
        if self.u is None:
            return Sym(pmul(self.t, self.t))
        return Sym(padd(pmul(self.t, self.t), pmul(self.u, self.u)))

    def __abs__(self):
        from . import engine
        if self.is_const():
            c = self.cval()
            return Sym.const(abs(c)) if self.u is None else engine.current().sqrt_of(self.abs2())
        if self.u is None:
            if self >= 0:
                return self
            return -self
        return engine.current().sqrt_of(self.abs2())

    def sqrt(self):
        from . import engine
        if self.u is not None:
            raise SymUnsupported('sqrt of complex symbolic scalar')
        return engine.current().sqrt_of(self)

    def exp(self):
        if self.is_zero():
            return Sym(pconst(1))
        raise SymUnsupported('exp of a symbolic scalar (transcendental)')

    # -- comparisons --------------------------------------------------------------------
    def _cmp_eq(self, o, op):
        o = tosym(o)
        if o is None:
            return NotImplemented
        d = self - o
        if d.u is not None:
            # complex equality: both parts must vanish; decide the imaginary part eagerly
            imz = bool(Atom(d.u, '=='))
            if op == '==':
                return Atom(d.t, '==') if imz else Atom(pconst(1), '==')
            return Atom(d.t, '!=') if imz else Atom(pconst(1), '!=')
        return Atom(d.t, op)

    def __eq__(self, o):
        return self._cmp_eq(o, '==')

    def __ne__(self, o):
        return self._cmp_eq(o, '!=')

    def _cmp_ord(self, o, swap, op):
        o = tosym(o)
        if o is None:
            return NotImplemented
        if self.u is not None or o.u is not None:
            raise TypeError('ordering comparison of complex symbolic scalars')
        d = psub(o.t, self.t) if swap else psub(self.t, o.t)
        return Atom(d, op)

    def __lt__(self, o): return self._cmp_ord(o, False, '<')
    def __le__(self, o): return self._cmp_ord(o, False, '<=')
    def __gt__(self, o): return self._cmp_ord(o, True, '<')
    def __ge__(self, o): return self._cmp_ord(o, True, '<=')

    def __hash__(self):
        # every symbolic scalar (constant or not) gets the same hash so that hashed containers fall back to __eq__,
        # i.e. to branching.  Harnesses never mix plain ints and Syms as keys of one container.
        return 7

    def __bool__(self):
        if self.u is not None:
            if bool(Atom(self.u, '!=')):
                return True
        return bool(Atom(self.t, '!='))

    def __int__(self):
        if self.is_const() and self.u is None:
            return int(pcval(self.t))
        raise SymUnsupported('int() of a symbolic scalar')

    def __index__(self):
        if self.is_const() and self.u is None and isinstance(pcval(self.t), int):
            return pcval(self.t)
        raise SymUnsupported('symbolic scalar used as an index')

    def __float__(self):
        if self.is_const() and self.u is None:
            return float(pcval(self.t))
        raise SymUnsupported('float() of a symbolic scalar')

    def __complex__(self):
        if self.is_const():
            return complex(self.cval())
        raise SymUnsupported('complex() of a symbolic scalar')

    def __repr__(self):
        if self.u is None:
            return f'S({pstr(self.t)})'
        return f'S({pstr(self.t)} + i*({pstr(self.u)}))'


class Atom:
    """p ⋈ 0 for a real polynomial dict p and ⋈ in {==, !=, <, <=}"""
    __slots__ = ('p', 'op')

    def __init__(self, p, op):
        self.p = p
        self.op = op

    def is_const(self):
        return pis_const(self.p)

    def const_value(self):
        c = pcval(self.p)
        return {'==': c == 0, '!=': c != 0, '<': c < 0, '<=': c <= 0}[self.op]

    def __bool__(self):
        if pis_const(self.p):
            return self.const_value()
        from . import engine
        return engine.current().branch(self)

    def neg(self):
        if self.op == '==':
            return Atom(self.p, '!=')
        if self.op == '!=':
            return Atom(self.p, '==')
        if self.op == '<':
            return Atom(pneg(self.p), '<=')
        return Atom(pneg(self.p), '<')

    def vars(self):
        return pvars(self.p)

    def __repr__(self):
        return f'[{pstr(self.p)} {self.op} 0]'

    # numpy sometimes combines comparison results with & | ~
    def __and__(self, o):
        return bool(self) and bool(o)
    __rand__ = __and__

    def __or__(self, o):
        return bool(self) or bool(o)
    __ror__ = __or__

    def __invert__(self):
        return self.neg()


def S(x):
    """coerce a concrete number or Sym to Sym"""
    s = tosym(x)
    if s is None:
        raise SymUnsupported(f'cannot convert {type(x).__name__} to a symbolic scalar')
    return s


def R(x):
    """real polynomial dict of a (real) value"""
    s = S(x)
    if s.u is not None:
        raise SymUnsupported('real polynomial requested for a complex scalar')
    return s.t


def parts(x):
    """(re, im) polynomial dicts"""
    s = S(x)
    return s.t, (s.u or {})
