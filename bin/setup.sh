#!/bin/sh
# Build /verif/.venv: a venv on top of /venv (NumPy/SciPy of the test-suite) plus z3-solver and cvc5
# from the offline wheelhouse.  Idempotent; offline.
set -e
HERE="$(cd "$(dirname "$0")/.." && pwd)"
V="$HERE/.venv"
if [ -x "$V/bin/python" ] && "$V/bin/python" -c "import z3, numpy, scipy" >/dev/null 2>&1; then
    exit 0
fi
rm -rf "$V"
/venv/bin/python -m venv "$V"
SP="$("$V/bin/python" -c 'import site; print(site.getsitepackages()[0])')"
echo "import site; site.addsitedir('/venv/lib/python3.12/site-packages')" > "$SP/_verif_overlay.pth"
PIP_NO_INDEX=1 "$V/bin/python" -m pip install -q --no-index --find-links /opt/veriftools/wheels z3-solver >/dev/null 2>&1 \
  || PIP_NO_INDEX=1 /venv/bin/python -m pip install -q --no-index --find-links /opt/veriftools/wheels --target "$SP" z3-solver
PIP_NO_INDEX=1 "$V/bin/python" -m pip install -q --no-index --find-links /opt/veriftools/wheels cvc5 >/dev/null 2>&1 || true
"$V/bin/python" -c "import z3, numpy, scipy; print('verif venv ok: z3', z3.get_version_string(), 'numpy', numpy.__version__)"
