#!/usr/bin/env python3
"""Generate /verif/MANIFEST.json from the table below (single source of truth for the interface)."""
import json
import os

HERE = os.path.dirname(os.path.dirname(os.path.abspath(__file__)))

TECH = 'bounded symbolic execution of the real pytenet code (symx: polynomial scalars in NumPy object arrays, re-execution DFS), path feasibility by z3 QF_LIA/QF_LRA, VCs by z3 QF_LRA on linearised ideal membership modulo LAPACK contracts (sampled queries re-decided by cvc5); counterexamples replayed on the real code; a concrete validation sweep of the encoding (sampling, reported separately) runs first'

CHECKS = {
    'C11': dict(
        text='Every feasible path of the real bond_ops.qr for all shapes m,n<=3 (<=4 thorough) is explored with symbolic integer '
             'charges and symbolic real (complex) entries; on each path QR=A, Q^H Q=I, block sparsity of both factors, '
             'shape/length consistency, the dummy-bond case and non-mutation are proved for ALL charge and entry values by SMT. '
             'Bounded (shape) but exhaustive in charges/entries, which is where un-sorting and block-index slips hide.',
        note='Trusts: the LAPACK QR contract (validated numerically each run), z3, the symx engine (validated Serval-style by pushing '
             'concrete inputs through the shimmed path and plain NumPy), exact-real idealisation of floating point. Outside: shapes > bound, dtype promotion, rounding.',
        design='6 C11'),
    'C01': dict(
        text='The real orthonormalize sweeps (MPS and MPO, both modes) are executed symbolically from an arbitrary block-sparse object with '
             'symbolic integer charges and symbolic entries for L<=3; on every feasible path (charge pattern x sign of the trailing R entry) '
             'factor>=0, factor*dense(new)=dense(old), isometry of every tensor, block sparsity under the new bond charges, bond-dimension bounds '
             'and boundary charges are proved modulo the LAPACK QR contract by SMT. All charges/entries within the shape bound, not samples.',
        note='Trusts the QR contract (validated numerically each run), z3, the symx engine (concrete-mode cross-validation), exact-real arithmetic. '
             'Outside: L>3, D>3, dtype promotion, rounding; factor^2 = sum|psi|^2 only via reconstruction + isometry.',
        design='6 C01'),
    'C02': dict(
        text='Histories are decided by ONE INDUCTIVE STEP PER OPERATION: from an arbitrary symbolic pre-state satisfying the representation invariant (array types, '
             'len(qD) = bond dimensions, block sparsity, outer bonds 1) every public operation (constructors, orthonormalize, compress, +, -, @, apply, split, from_vector, '
             'TDVP single/two-site step, DMRG single/two-site sweep, from_opgraph, all Hamiltonian constructors) is executed symbolically and the invariant plus boundary-charge '
             'preservation (for states that are not structurally zero) is re-established on every path by SMT (QF_LIA on the symbolic charges).',
        note='Trusts QR/SVD contracts, the Krylov-space stub (TDVP/DMRG local solver returns an arbitrary element of span{v, Av}), z3, engine. The induction covers histories whose '
             'intermediate objects stay inside the shape bound (L<=2 quick / 3 thorough, D<=2); longer growth is outside. Replays re-run the step on seeded concrete pre-states with the z3 charge model.',
        design='6 C02'),
    'C03': dict(
        text='add/sub/compose/apply/identity/dense conversion run on symbolic tensors (all independent bond profiles D<=2, L<=3, real and complex); '
             'dense(result) is compared with the dense expression of the operands as polynomial identities decided by SMT for all entry values; '
             'symbolic charges enumerate every sparsity layout at L<=2; from_vector(tol=0, n<=2 sites) and split+merge hold modulo the SVD contract.',
        note='Trusts SVD/norm contracts, z3, engine. Outside the solver-based claim: as_matrix(sparse_format=True) (SciPy sparse cannot hold symbols) and dtype promotion -- '
             'both are only exercised by the concrete validation sweep (sampling); from_vector for n>=3 sites; d>2, D>2, L>3, rounding.',
        design='6 C03'),
    'C04': dict(
        text='Everything in operation.py runs on symbolic complex tensors; vdot, norm, operator averages, traces, and the projection identity '
             '<B|H_loc A> = <Psi(B)|H|Psi(A)> for every site, two-site and zero-site variant are decided as polynomial identities by SMT (L<=3, D<=2, product-state chains L<=6; thorough: local applications at L=4, d=3, D=3; '
             'bra/ket/operator profiles independent). Entries universally quantified => every block-sparse instance covered.',
        note='Trusts sqrt contract for norm(), z3, engine. Hermiticity premise imposed structurally on the MPO tensors. Outside: L>3 with D>1 (a concrete sweep runs L=4..8; sampling), D>2, d>2, rounding.',
        design='6 C04'),
    'C05': dict(
        text='from_opchains/from_opgraph run with symbolic coefficients and symbolic interleaved charges over ALL chain-list skeletons in the bound '
             '(L<=3, <=3 chains, ids incl. identity inside chains, identity ids 0, 1 and 2, duplicates, all orders); zero / cancelling / accumulate-to-one coefficient cases are paths; '
             'the word-coefficient identities (free algebra) and the MPO matrix identity under a symbolic operator map are decided by SMT per path; from_opgraph is also run on '
             'arbitrary generated graphs (parallel same-operator edges, multi-operator edges, shuffled node ids).',
        note='Trusts z3, engine, the word-semantics oracle (refs/words.py). OpHalfchain.__hash__ is made constant by the shim (lookups decide by __eq__). '
             'Outside: L>3 (4 thorough), >3 chains, operator maps other than 2x2 real.',
        design='6 C05'),
    'C06': dict(
        text='All six public lattice-Hamiltonian constructors run end to end with symbolic real (complex) parameters for L=1..8 (Ising, XXZ, fermionic combinations; 10 thorough), spin-1 L<=5 (6), Bose d<=5 / L<=6 (d=6, L=8), '
             'Fermi-Hubbard L<=4 (5); every zero/non-zero coupling pattern is a path; dense matrix vs textbook formula, Hermiticity and charge conservation are decided '
             'for all parameter values by SMT.',
        note='Trusts the textbook oracle refs/models.py (written from docstrings, validated numerically against the unchanged tree each run), z3, engine. '
             'Irrational local operators enter as the IEEE doubles the code uses. Outside: larger L/d.',
        design='6 C06'),
    'C07': dict(
        text='Both molecular-Hamiltonian builders (spinless and spin-orbital; optimised and explicit path) run with ALL L^2+L^4 coefficients symbolic; '
             'the dense MPO matrix and an independent Fock-space operator (explicit fermionic signs) are compared entry by entry by SMT for all coefficient '
             'values: spinless L=1..8 (10 thorough), spin explicit L<=5 (6), spin optimised L<=4 (5) -- beyond dense reach column by column (every occupation-number basis state propagated through the symbolic MPO chain, i.e. the full matrix). '
             'The orbital-rotation gauge matrices are decided for all coefficient tensors and an arbitrary symbolic 2x2 unitary (L=4..6, every pair i).',
        note='Trusts the Fock-space oracle (validated numerically against the unchanged tree each run), z3, engine. Optimised path: zero pattern from a stated family, '
             'remaining coefficient combinations assumed non-zero. Outside: spin L>5 (6), spinless L>8 (10), gauge transform for L>6(7), identically-zero operator.',
        design='6 C07'),
    'C12': dict(
        text='split_matrix_svd / retained_bond_indices / split_mps_tensor run with symbolic charges, entries and tolerance in [0,1); LAPACK SVD replaced by its '
             'contract; spectrum order across blocks and every truncation outcome (incl. tolerance equal to a cumulative weight) are paths; proved per path by SMT: '
             'truncation rule on the normalised weights (bound, ordering, maximality, positivity), isometry, sparsity, error identity, exactness at tol=0, zero matrix, non-mutation.',
        note='Trusts the SVD/sqrt/inverse contracts (validated numerically), z3, engine. Kept/discarded comparisons are stated on the normalised weights with the linking '
             'identities t_i w^2 = s_i^2 (meta-argument documented in the evidence). Outside: shapes > 3x3 (2x3 quick), more than 5 values in retained_bond_indices (3 quick), rounding.',
        design='6 C12'),
    'C13': dict(
        text='PARTIAL. MPS.compress runs symbolically (QR + SVD contracts, symbolic tolerance): block sparsity, canonical form, non-growing bonds, C12 truncation rule at the '
             'first truncated bond together with the canonical form of the not-yet-swept part of the chain at that moment (so the truncated values are Schmidt values), and exactness '
             'nrm*scale*dense(new)=dense(old) when nothing is discarded / tol=0 are proved by SMT for L<=2 (3 structural). For L=2 (D<=2, both modes, symbolic tol) '
             'scale^2 + discarded relative weight = 1 and 1-L tol <= scale^2 <= 1 are proved by a lemma chain. '
             'The scale bound for L>=3, the error identity / bound nrm sqrt(L tol) and from_vector(tol>0) are NOT decided.',
        note='Trusts QR/SVD contracts (incl. the implied Frobenius identity as an opt-in lemma), z3, engine. Outside: scale bound L>=3, error identity, from_vector(tol>0), scale=1 at tol=0, zero states, L>3.',
        design='6 C13'),
    'C14': dict(
        text='PARTIAL. lanczos_iteration / arnoldi_iteration run in exact arithmetic on symbolic maps and start vectors; every breakdown position is a path. '
             'Output-size consistency is checked on every termination path for n<=3, numiter<=4 (thorough n=4, numiter<=5; incl. numiter>n) and through eigh_krylov/expm_krylov; '
             'for numiter<=2: V^H V=I, V^H A V = T/H, positive off-diagonals, Hessenberg structure are proved by SMT.',
        note='Trusts sqrt/inverse stubs, z3, engine. Outside: relations beyond two vectors, floating-point loss of orthogonality, meaning of the breakdown threshold.',
        design='6 C14'),
    'C16': dict(
        text='simplify / merge_edges / rename_node_id / rename_edge_id / add / flip run from arbitrary consistent layered graphs generated inside the exploration '
             '(parallel and multi-operator edges, symbolic coefficients and node charges, colliding and fully symbolic ids for add); operator preservation '
             '(word polynomials), consistency, monotone size and non-interference with the other graph are decided per path by SMT. One inductive step per rewrite.',
        note='Trusts z3, engine, word-semantics oracle. Outside: graphs beyond width 2 (3 thorough) / 3 layers; rewrite sequences only inside the bound (seq2 cross-check thorough).',
        design='6 C16'),
    'C17': dict(
        text='from_optrees and from_automaton run over tree / automaton skeletons generated inside the exploration with symbolic coefficients, node charges, '
             'site-dependent active/opics callables; result graphs vs sum over root-to-leaf paths resp. DP over automaton paths; as_matrix of chains, trees, graphs '
             'vs word semantics under a symbolic operator map; all decided by SMT per path.',
        note='Trusts z3, engine, oracles. Tree nodes coinciding with terminal nodes carry charge 0 (else RuntimeError by design). Outside: larger trees/automata/L (trees: L<=5 quick, 6 thorough with small trees; automata: 3 nodes in every hand-over order, two terminal choices, L<=3, 4 thorough).',
        design='6 C17'),
    'C18': dict(
        category='exploration',
        text='Exhaustive within bound: every bipartite graph up to 4x4 (thorough: 4x5 and 5x4, 2.3e6 graphs) and every ordered edge list with duplicates up to length 4 (5) over 3x3 is a path; '
             'the Koenig certificate (valid matching, valid cover, |cover|=|matching|) is checked on each. The solver only decides the 0/1 adjacency branches.',
        note='Symbolic execution degenerates to enumeration here (every input bit is branched on); stated as exploration. Outside: 5x5 exhaustive, random 60x60 sampling.',
        design='6 C18',
        technique='re-execution DFS over symbolic 0/1 adjacency bits (z3 QF_LIA feasibility), exhaustive within the size bound; concrete Koenig certificate per path'),
    'C19': dict(
        text='Identity/aliasing monitors on the same symbolic executions as C02 plus scalar-valued operations, dense conversion, block QR/SVD/truncation and graph constructors: '
             'operands snapshotted elementwise (object arrays hold immutable scalars => bit-for-bit), results share no array / list / node object with operands, follow-up mutation '
             'of results leaves operands intact, in-place algorithms touch only their documented target (never the Hamiltonian or the other graph; the attribute set of such objects is compared too). Every charge pattern is a path, '
             'which matters because copying depends on e.g. the already-sorted shortcut.',
        note='Monitors are concrete per path; the paths come from symbolic execution (z3 feasibility). Outside: dtype-dependent in-place casting, shapes beyond the bound. Observed but outside the '
             'property as stated: qr/split_matrix_svd return a view q0[:1] in the no-common-charge branch; as_vector of a single-site MPS is a view.',
        design='6 C19'),
    'C20': dict(
        text='PARTIAL but including Schmidt-rank optimality within dense reach: for each built-in model (L<=4 d=2, L<=3 d=3/4, molecular L<=3) with generic symbolic parameters a DxD minor of the '
             'reshaped symbolic operator is shown non-vanishing by z3 (QF_NRA witness), so bond dimension = operator Schmidt rank generically at every cut; for all chain lists in the C05 space '
             'layer widths <= number of non-zero chains; simplify/merge/add never increase a layer width (C16 space).',
        note='Trusts: MPO bond dimension D bounds the Schmidt rank (standard), a polynomial non-zero at one point is generically non-zero, z3, engine. Outside: larger L, spin-orbital molecular model, '
             'minors larger than 6x6, non-generic parameters.',
        design='6 C20'),
}

NOT_APPLICABLE = {
    'C08': 'numerical: norm/energy conservation of TDVP rests on unitarity of exp(-i t T); exp is not expressible in SMT and a contract stub for expm_krylov would assume the conclusion (DESIGN 7)',
    'C09': 'numerical: exactness on a complete manifold and time reversibility compare against the dense matrix exponential for complex dt; transcendental (DESIGN 7)',
    'C10': 'numerical: variational bounds and monotonicity rest on the min-max principle for LAPACK tridiagonal eigen-solvers and exact ground-state energies; spectral statements are outside SMT arithmetic (DESIGN 7)',
    'C15': 'numerical: Ritz-value bounds, unitarity and exactness of expm/eigh_tridiagonal are spectral/transcendental facts about SciPy kernels; only the shape plumbing is checkable, done under C14 (DESIGN 7)',
}

PENDING = {}   # filled below for properties whose harness is not registered yet


def main():
    props = [json.loads(l)['id'] for l in open(os.path.join(HERE, 'properties.jsonl'))]
    checks = []
    for pid in props:
        if pid not in CHECKS:
            continue
        c = CHECKS[pid]
        checks.append(dict(
            property_id=pid,
            quick_cmd=f'bin/check {pid} --tier quick',
            thorough_cmd=f'bin/check {pid} --tier thorough',
            evidence_file=f'evidence/{pid}.json',
            replay_cmd_template=f'bin/check {pid} --replay {{path}}',
            engine='symx',
            level_claimed=dict(category=c.get('category', 'other'), text=c['text'], design_ref=c['design']),
            level_note=c['note'],
            technique=c.get('technique', TECH),
        ))
    na = []
    for pid in props:
        if pid in CHECKS:
            continue
        reason = NOT_APPLICABLE.get(pid) or PENDING.get(pid) or 'harness not registered yet (work in progress); not claimed'
        na.append(dict(property_id=pid, reason=reason))
    man = dict(
        version=1,
        setup_cmd='bin/setup.sh',
        hooks=dict(guard='PYTENET_VERIF', enable='none needed: all adaptation is done by rebinding names from /verif (symx.shims); the guard variable is reserved and unused',
                   baseline_off_cmd='cd /repo && /venv/bin/python -m pytest -ra -q -p no:cacheprovider --timeout=900 --continue-on-collection-errors',
                   source_commits=[], add_only=True),
        engines=[dict(name='symx', path='symx/', serves_properties=[c['property_id'] for c in checks],
                      kind_free_text='symbolic execution of the unmodified Python/NumPy source on exact polynomial scalars + z3 (QF_LIA, QF_LRA); cvc5 cross-check in the thorough tier')],
        checks=checks,
        not_applicable=na,
        notes='Fix commits in /repo: 62646c6 (F1), aa6acf4 (F2), 891f828 (F3); see known_findings.txt and DESIGN.md section 5.',
    )
    with open(os.path.join(HERE, 'MANIFEST.json'), 'w') as f:
        json.dump(man, f, indent=1)
    print('MANIFEST.json:', len(checks), 'checks,', len(na), 'not applicable')


if __name__ == '__main__':
    main()
