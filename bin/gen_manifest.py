#!/usr/bin/env python3
"""Generate /verif/MANIFEST.json from the table below (single source of truth for the interface)."""
import json
import os

HERE = os.path.dirname(os.path.dirname(os.path.abspath(__file__)))

TECH = 'bounded symbolic execution of the real pytenet code (symx: polynomial scalars in NumPy object arrays, re-execution DFS), path feasibility by z3 QF_LIA/QF_LRA, VCs by z3 QF_LRA on linearised ideal membership modulo LAPACK contracts; counterexamples replayed on the real code'

CHECKS = {
    'C11': dict(
        text='Every feasible path of the real bond_ops.qr for all shapes m,n<=3 (<=4 thorough) is explored with symbolic integer '
             'charges and symbolic real (complex) entries; on each path QR=A, Q^H Q=I, block sparsity of both factors, '
             'shape/length consistency, the dummy-bond case and non-mutation are proved for ALL charge and entry values by SMT. '
             'Bounded (shape) but exhaustive in charges/entries, which is where un-sorting and block-index slips hide.',
        note='Trusts: the LAPACK QR contract (validated numerically each run), z3, the symx engine (validated Serval-style by pushing '
             'concrete inputs through the shimmed path and plain NumPy), exact-real idealisation of floating point. Outside: shapes > bound, dtype promotion, rounding.',
        design='6 C11'),
}

NOT_APPLICABLE = {
    'C08': 'numerical: norm/energy conservation of TDVP rests on unitarity of exp(-i t T); exp is not expressible in SMT and a contract stub for expm_krylov would assume the conclusion (DESIGN 7)',
    'C09': 'numerical: exactness on a complete manifold and time reversibility compare against the dense matrix exponential for complex dt; transcendental (DESIGN 7)',
    'C10': 'numerical: variational bounds and monotonicity rest on the min-max principle for LAPACK tridiagonal eigen-solvers and exact ground-state energies; spectral statements are outside SMT arithmetic (DESIGN 7)',
    'C15': 'numerical: Ritz-value bounds, unitarity and exactness of expm/eigh_tridiagonal are spectral/transcendental facts about SciPy kernels; only the shape plumbing is checkable, done under C14 (DESIGN 7)',
}

PENDING = {}   # filled below for properties whose harness is not registered yet


def main():
    props = [json.loads(l)['id'] for l in open(os.path.join(HERE, 'properties.jsonl'))]
    checks = []
    for pid in props:
        if pid not in CHECKS:
            continue
        c = CHECKS[pid]
        checks.append(dict(
            property_id=pid,
            quick_cmd=f'bin/check {pid} --tier quick',
            thorough_cmd=f'bin/check {pid} --tier thorough',
            evidence_file=f'evidence/{pid}.json',
            replay_cmd_template=f'bin/check {pid} --replay {{path}}',
            engine='symx',
            level_claimed=dict(category=c.get('category', 'other'), text=c['text'], design_ref=c['design']),
            level_note=c['note'],
            technique=c.get('technique', TECH),
        ))
    na = []
    for pid in props:
        if pid in CHECKS:
            continue
        reason = NOT_APPLICABLE.get(pid) or PENDING.get(pid) or 'harness not registered yet (work in progress); not claimed'
        na.append(dict(property_id=pid, reason=reason))
    man = dict(
        version=1,
        setup_cmd='bin/setup.sh',
        hooks=dict(guard='PYTENET_VERIF', enable='none needed: all adaptation is done by rebinding names from /verif (symx.shims); the guard variable is reserved and unused',
                   baseline_off_cmd='cd /repo && /venv/bin/python -m pytest -ra -q -p no:cacheprovider --timeout=900 --continue-on-collection-errors',
                   source_commits=[], add_only=True),
        engines=[dict(name='symx', path='symx/', serves_properties=[c['property_id'] for c in checks],
                      kind_free_text='symbolic execution of the unmodified Python/NumPy source on exact polynomial scalars + z3 (QF_LIA, QF_LRA); cvc5 cross-check in the thorough tier')],
        checks=checks,
        not_applicable=na,
        notes='Fix commits in /repo: 62646c6 (F1), aa6acf4 (F2), 891f828 (F3); see known_findings.txt and DESIGN.md section 5.',
    )
    with open(os.path.join(HERE, 'MANIFEST.json'), 'w') as f:
        json.dump(man, f, indent=1)
    print('MANIFEST.json:', len(checks), 'checks,', len(na), 'not applicable')


if __name__ == '__main__':
    main()
