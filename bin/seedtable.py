#!/usr/bin/env python3
"""dev tool: print the markdown table of DESIGN.md section 12 from seeded/*/meta.json"""
import glob, json, os
rows = []
for f in sorted(glob.glob(os.path.join(os.path.dirname(__file__), '..', 'seeded', '*', 'meta.json'))):
    m = json.load(open(f))
    name = os.path.basename(os.path.dirname(f))
    esc = lambda s: str(s).replace('|', '/')
    rows.append(f"| {name} | {m['property']} | {esc(m['change'])} | {esc(m['needs_to_manifest'])} | "
                f"{esc('; '.join(m.get('caught_by', [])) or '-')} | {esc('; '.join(m.get('not_caught_by', [])) or '-')} |")
print('| seed | breaks | change | needs | caught by | not caught by |')
print('|---|---|---|---|---|---|')
print('\n'.join(rows))
