"""
harness.ops -- one symbolic execution of each public operation from an arbitrary pre-state (the inductive step of
C02 / C19).  Each driver builds symbolic operands satisfying the representation invariant and the operation's
documented precondition, runs the real operation, and returns a record

    results   [(object, 'mps'|'mpo', name)]     objects returned or overwritten (must satisfy the invariant again)
    snap      identity snapshot of every array that must NOT change (operands of pure operations, the Hamiltonian, ...)
    operands  [(object, kind, name)]             for the no-aliasing checks
    pure      True if the operation returns a new object (results must not share state with operands)
    boundary  (object, old first boundary array, old last boundary array) for operations that must keep total charges
    inputs    JSON-able description for concrete replay

TDVP / DMRG use a Krylov-space stub for expm_krylov / eigh_krylov: the result is an arbitrary element
sum_{k<m} c_k A^k v (fresh c_k, m <= 2) of the Krylov space -- the only fact the *structural* properties need.
"""
import itertools
import numpy as np

from harness.common import *
from harness import tn
from symx import shims, poly
from symx.engine import DeadPath
from symx.poly import Sym, S, SymDivisionByZero
import pytenet as ptn
import pytenet.evolution as EV
import pytenet.minimization as MI
from pytenet.mps import split_mps_tensor
from pytenet.operation import apply_operator

_real_expm = EV.expm_krylov
_real_eigh = MI.eigh_krylov
KRYLOV_M = 2


def _krylov_combo(eng, Afunc, v, tag):
    out = None
    w = v
    for k in range(KRYLOV_M):
        c = eng.sym(f'{tag}{len(poly.VARS)}', 'real', 'stub')
        term = c * w
        out = term if out is None else out + term
        if k + 1 < KRYLOV_M:
            w = Afunc(w)
    return out


def stub_expm_krylov(Afunc, v, dt, numiter, hermitian=False):
    if not shims.active() or np.asarray(v).dtype != object:
        return _real_expm(Afunc, v, dt, numiter, hermitian)
    from symx import engine as E
    shims.STUB_LOG.append(('expm_krylov', np.shape(v)))
    return _krylov_combo(E.current(), Afunc, v, 'kx')


def stub_eigh_krylov(Afunc, vstart, numiter, numeig):
    if not shims.active() or np.asarray(vstart).dtype != object:
        return _real_eigh(Afunc, vstart, numiter, numeig)
    from symx import engine as E
    eng = E.current()
    shims.STUB_LOG.append(('eigh_krylov', np.shape(vstart)))
    u = _krylov_combo(eng, Afunc, vstart, 'ke')
    w = np.array([eng.sym(f'ritz{len(poly.VARS)}', 'real', 'stub')], dtype=object)
    return w, u.reshape((-1, 1))


EV.expm_krylov = stub_expm_krylov
MI.eigh_krylov = stub_eigh_krylov


def mk_charges(eng, task, d, profiles, share_boundary=True, zero_boundary_for=()):
    """qd and one qD list per profile; boundary charges shared between operands unless listed in zero_boundary_for"""
    qm = task.get('qmode', 'sym')
    if qm == 'zero':
        qd = np.zeros(d, dtype=int)
        return qd, [[np.zeros(n, dtype=int) for n in P] for P in profiles]
    if qm == 'pair':
        # encoded (particle number, spin) pairs as used by the Fermi-Hubbard and spin-orbital models, concrete qd
        qd = np.array([(0 << 16) + 0, (1 << 16) - 1, (1 << 16) + 1, (2 << 16) + 0][:d], dtype=object)
    else:
        qd = eng.sym_array('qd', (d,), 'int')
    ql = eng.sym_array('ql', (1,), 'int'); qr = eng.sym_array('qr', (1,), 'int')
    out = []
    for k, P in enumerate(profiles):
        L = len(P) - 1
        if k in zero_boundary_for:
            a, b = np.zeros(1, dtype=int), np.zeros(1, dtype=int)
        elif share_boundary:
            a, b = ql, qr
        else:
            a, b = eng.sym_array(f'ql{k}', (1,), 'int'), eng.sym_array(f'qr{k}', (1,), 'int')
        qD = [a if P[0] == 1 else eng.sym_array(f'q{k}_0', (P[0],), 'int')]
        for i in range(1, L):
            qD.append(eng.sym_array(f'q{k}_{i}', (P[i],), 'int'))
        qD.append(b if P[-1] == 1 else eng.sym_array(f'q{k}_{L}', (P[-1],), 'int'))
        out.append(qD)
    return qd, out


def struct_zero(x, kind):
    """is the represented state / operator structurally zero (every dense entry the constant 0)?"""
    dense = tn.dense_vec(x) if kind == 'mps' else list(tn.dense_mat(x).reshape(-1))
    return all(is_structural_zero(v) for v in dense)


def arrays_of(objs):
    out = []
    for o in objs:
        out += list(o.A) + [o.qd] + list(o.qD)
    return out


def op_constructor(eng, task):
    d, P, cls, fill = task['d'], task['D'], task['cls'], task['fill']
    qd, (qD,) = mk_charges(eng, task, d, [P])
    qd_in = list(qd); qD_in = [list(q) for q in qD]
    snap = snapshot([qd] + list(qD))
    f = eng.sym('fill') if fill == 'number' else 'random'
    C = ptn.MPS if cls == 'mps' else ptn.MPO
    if fill == 'number':
        # the constructor accepts int/float/complex literals only; a symbolic fill value is injected after construction
        x = C(qd, qD, fill=1.0)
        for i in range(len(x.A)):
            x.A[i] = x.A[i] * f
    else:
        x = C(qd, qD, fill='random')
    return dict(results=[(x, cls, 'constructed')], snap=snap, operands=[], pure=True, raw_args=[qd] + list(qD),
                inputs=dict(op='constructor', cls=cls, qd=qd_in, qD=qD_in, fill=fill))


def op_orthonormalize(eng, task):
    d, P, cls, mode = task['d'], task['D'], task['cls'], task['mode']
    qd, (qD,) = mk_charges(eng, task, d, [P])
    x = (tn.sym_mps if cls == 'mps' else tn.sym_mpo)(eng, 'A', d, P, qd, qD)
    inputs = dict(op='orthonormalize', cls=cls, mode=mode, x=tn.mps_json(x))
    old = (x.qD[0].copy(), x.qD[-1].copy())
    sz = struct_zero(x, cls)
    nrm = x.orthonormalize(mode=mode)
    return dict(results=[(x, cls, 'orthonormalized')], snap=snapshot([x.qd]), operands=[], pure=False, boundary=(x, old, nrm), inputs=inputs, state_zero=sz)


def op_zero_qnumbers(eng, task):
    """zero_qnumbers() on an arbitrary block-sparse object (in particular with a non-zero total charge): afterwards every list is zero,
    so the invariant holds trivially - unless a list was forgotten"""
    d, P, cls = task['d'], task['D'], task['cls']
    qd, (qD,) = mk_charges(eng, task, d, [P])
    if task.get('free_boundary'):
        qD[-1] = eng.sym_array('qtot', (1,), 'int')
    x = (tn.sym_mps if cls == 'mps' else tn.sym_mpo)(eng, 'A', d, P, qd, qD)
    inputs = dict(op='zero_qnumbers', cls=cls, x=tn.mps_json(x))
    x.zero_qnumbers()
    return dict(results=[(x, cls, 'zero_qnumbers')], snap=snapshot([]), operands=[], pure=False, inputs=inputs)


def op_compress(eng, task):
    d, P, mode = task['d'], task['D'], task['mode']
    qd, (qD,) = mk_charges(eng, task, d, [P])
    x = tn.sym_mps(eng, 'A', d, P, qd, qD)
    tol = eng.sym('tol')
    eng.assume(tol >= 0); eng.assume(tol * (len(P) - 1) < 1)
    inputs = dict(op='compress', mode=mode, tol=tol, x=tn.mps_json(x))
    old = (x.qD[0].copy(), x.qD[-1].copy())
    sz = struct_zero(x, 'mps')
    nrm, scale = x.compress(tol, mode=mode)
    return dict(results=[(x, 'mps', 'compressed')], snap=snapshot([x.qd]), operands=[], pure=False, boundary=(x, old, nrm), inputs=inputs, state_zero=sz)


def op_binary(eng, task):
    d, P0, P1, which = task['d'], task['D'], task['D1'], task['which']
    kinds = dict(add_mps=('mps', 'mps'), sub_mps=('mps', 'mps'), add_mpo=('mpo', 'mpo'), sub_mpo=('mpo', 'mpo'),
                 matmul=('mpo', 'mpo'), apply=('mpo', 'mps'))[which]
    qd, qDs = mk_charges(eng, task, d, [P0, P1], share_boundary=which not in ('matmul', 'apply'))
    xs = []
    for k, (kind, P, qD) in enumerate(zip(kinds, (P0, P1), qDs)):
        xs.append((tn.sym_mps if kind == 'mps' else tn.sym_mpo)(eng, f'X{k}_', d, P, qd if k == 0 else qd.copy(), qD))
    if task.get('same'):
        xs[1] = xs[0]           # the very same object on both sides (psi + psi, op - op, op @ op)
    inputs = dict(op=which, x0=tn.mps_json(xs[0]), x1=tn.mps_json(xs[1]))
    snap = snapshot(arrays_of(xs))
    attr_snap = [(x, frozenset(vars(x))) for x in xs]
    if which in ('add_mps', 'add_mpo'):
        res = xs[0] + xs[1]
    elif which in ('sub_mps', 'sub_mpo'):
        res = xs[0] - xs[1]
    elif which == 'matmul':
        res = xs[0] @ xs[1]
    else:
        res = apply_operator(xs[0], xs[1])
    rk = 'mps' if which in ('add_mps', 'sub_mps', 'apply') else 'mpo'
    return dict(results=[(res, rk, which)], snap=snap, attr_snap=attr_snap, operands=[(x, k, f'operand{i}') for i, (x, k) in enumerate(zip(xs, kinds))], pure=True, inputs=inputs)


def op_split(eng, task):
    d0, d1, D0, D2, distr = task['d0'], task['d1'], task['D0'], task['D2'], task['distr']
    qd0 = eng.sym_array('qa', (d0,), 'int'); qd1 = eng.sym_array('qb', (d1,), 'int')
    qD = [eng.sym_array('ql', (D0,), 'int'), eng.sym_array('qr', (D2,), 'int')]
    qdm = tn.qsum([qd0, qd1]).reshape(-1)
    A = sparse_tensor(eng, 'A', (d0 * d1, D0, D2), [qdm, qD[0], -qD[1]])
    tol = eng.sym('tol')
    eng.assume(tol >= 0); eng.assume(tol < 1)
    inputs = dict(op='split', A=A.copy(), qd0=list(qd0), qd1=list(qd1), qD=[list(qD[0]), list(qD[1])], distr=distr, tol=tol)
    snap = snapshot([A, qd0, qd1] + qD)
    A0, A1, qb = split_mps_tensor(A, qd0, qd1, qD, distr, tol=tol)
    # package the two halves as a two-site MPS-like object for the invariant check
    class Pair:
        pass
    x = Pair()
    x.qd = qd0; x.qD = [qD[0], qb]; x.A = [A0]
    y = Pair()
    y.qd = qd1; y.qD = [qb, qD[1]]; y.A = [A1]
    return dict(results=[(x, 'mps_open', 'split.A0'), (y, 'mps_open', 'split.A1')], snap=snap, operands=[], pure=True, raw_args=[A, qd0, qd1] + qD,
                raw_results=[A0, A1, qb], inputs=inputs)


def op_from_vector(eng, task):
    d, n = task['d'], task['L']
    v = eng.sym_array('v', (d ** n,))
    tol = eng.sym('tol')
    eng.assume(tol >= 0); eng.assume(tol < 1)
    snap = snapshot([v])
    psi = ptn.MPS.from_vector(d, n, v, tol=tol)
    return dict(results=[(psi, 'mps', 'from_vector')], snap=snap, operands=[], pure=True, raw_args=[v], followup=task.get('followup'),
                inputs=dict(op='from_vector', d=d, nsites=n, v=list(v), tol=tol))


def _sym_hamiltonian(eng, d, PW, qd):
    qDW = [np.zeros(1, dtype=int)] + [eng.sym_array(f'qW{i}', (PW[i],), 'int') for i in range(1, len(PW) - 1)] + [np.zeros(1, dtype=int)]
    return tn.sym_mpo(eng, 'W', d, PW, qd, qDW)


def op_tdvp(eng, task):
    d, P, PW, variant = task['d'], task['D'], task['DW'], task['variant']
    qd, (qD,) = mk_charges(eng, task, d, [P])
    psi = tn.sym_mps(eng, 'A', d, P, qd, qD)
    H = _sym_hamiltonian(eng, d, PW, qd.copy())
    dt = eng.sym('dt')
    inputs = dict(op='tdvp_' + variant, psi=tn.mps_json(psi), H=tn.mps_json(H), dt=dt)
    snap = snapshot(arrays_of([H]))
    attr_snap = [(H, frozenset(vars(H)))]
    old = (psi.qD[0].copy(), psi.qD[-1].copy())
    old_dims = list(psi.bond_dims)
    sz = struct_zero(psi, 'mps')
    poly.ABSTRACT[0] = task.get('abstract', 120)
    try:
        if variant == 'single':
            nrm = EV.integrate_local_singlesite(H, psi, dt, task.get('nsteps', 1), numiter_lanczos=KRYLOV_M)
        else:
            tol = eng.sym('tolsplit')
            eng.assume(tol >= 0); eng.assume(tol < 1)
            inputs['tol'] = tol
            nrm = EV.integrate_local_twosite(H, psi, dt, task.get('nsteps', 1), numiter_lanczos=KRYLOV_M, tol_split=tol)
    finally:
        poly.ABSTRACT[0] = None
    return dict(results=[(psi, 'mps', 'tdvp state')], snap=snap, attr_snap=attr_snap, operands=[(H, 'mpo', 'H')], pure=False, boundary=(psi, old, nrm),
                inputs=inputs, old_dims=old_dims, single_site=(variant == 'single'), state_zero=sz)


def op_dmrg(eng, task):
    d, P, PW, variant = task['d'], task['D'], task['DW'], task['variant']
    qd, (qD,) = mk_charges(eng, task, d, [P])
    psi = tn.sym_mps(eng, 'A', d, P, qd, qD)
    H = _sym_hamiltonian(eng, d, PW, qd.copy())
    inputs = dict(op='dmrg_' + variant, psi=tn.mps_json(psi), H=tn.mps_json(H))
    snap = snapshot(arrays_of([H]))
    attr_snap = [(H, frozenset(vars(H)))]
    old = (psi.qD[0].copy(), psi.qD[-1].copy())
    old_dims = list(psi.bond_dims)
    sz = struct_zero(psi, 'mps')
    poly.ABSTRACT[0] = task.get('abstract', 120)
    try:
        if variant == 'single':
            en = MI.calculate_ground_state_local_singlesite(H, psi, task.get('nsteps', 1), numiter_lanczos=KRYLOV_M)
        else:
            tol = eng.sym('tolsplit')
            eng.assume(tol >= 0); eng.assume(tol < 1)
            inputs['tol'] = tol
            en = MI.calculate_ground_state_local_twosite(H, psi, task.get('nsteps', 1), numiter_lanczos=KRYLOV_M, tol_split=tol)
    finally:
        poly.ABSTRACT[0] = None
    return dict(results=[(psi, 'mps', 'dmrg state')], snap=snap, attr_snap=attr_snap, operands=[(H, 'mpo', 'H')], pure=False, boundary=(psi, old, None),
                inputs=inputs, old_dims=old_dims, single_site=(variant == 'single'), state_zero=sz)


def op_hamiltonian(eng, task):
    model, L = task['model'], task['L']
    if model == 'linear_fermionic':
        coeff = [eng.csym(f'f{i}') for i in range(L)]
        arr_ = np.array(coeff, dtype=object)
        snap = snapshot([arr_])
        x = ptn.linear_fermionic_mpo(arr_, task.get('ftype', 'c'))
        return dict(results=[(x, 'mpo', model)], snap=snap, operands=[], pure=True, raw_args=[arr_], inputs=dict(op='hamiltonian', model=model, L=L, d=2, ftype=task.get('ftype', 'c'), params=coeff))
    if model in ('molecular', 'spin_molecular'):
        from harness.c07 import make_coeffs, assume_generic
        kind = 'spinless' if model == 'molecular' else 'spin'
        tk, vi = make_coeffs(eng, L, 'dense', 0)
        if task['optimize']:
            assume_generic(eng, kind, tk, vi)
        snap = snapshot([tk, vi])
        f = ptn.molecular_hamiltonian_mpo if model == 'molecular' else ptn.spin_molecular_hamiltonian_mpo
        x = f(tk, vi, optimize=task['optimize'])
        return dict(results=[(x, 'mpo', model)], snap=snap, operands=[], pure=True, raw_args=[tk, vi],
                    inputs=dict(op='molecular', kind=kind, optimize=task['optimize'], tkin=tk.copy(), vint=vi.copy()))
    from harness.c06 import MODELS
    spec = MODELS[model]
    params = [eng.sym(n) for n in spec['params']]
    d = task.get('d') or spec['d']
    # generic parameters (the zero patterns are explored under C06)
    for p in params:
        eng.assume(p != 0)
    x = spec['fn'](L, params, d)
    return dict(results=[(x, 'mpo', model)], snap=[], operands=[], pure=True, inputs=dict(op='hamiltonian', model=model, L=L, d=d, params=params))


def op_identity(eng, task):
    qd = eng.sym_array('qd', (task['d'],), 'int')
    snap = snapshot([qd])
    x = ptn.MPO.identity(qd, task['L'], scale=eng.sym('scale'))
    return dict(results=[(x, 'mpo', 'identity')], snap=snap, operands=[], pure=True, raw_args=[qd], inputs=dict(op='identity', qd=list(qd), L=task['L'], scale=2))


OPS = dict(constructor=op_constructor, orthonormalize=op_orthonormalize, compress=op_compress, binary=op_binary, split=op_split,
           from_vector=op_from_vector, tdvp=op_tdvp, dmrg=op_dmrg, hamiltonian=op_hamiltonian, identity=op_identity,
           zero_qnumbers=op_zero_qnumbers)


def op_tasks(tier):
    """the operation list shared by C02 and C19"""
    q = tier == 'quick'
    ts = []
    for cls in ('mps', 'mpo'):
        for fill in ('number', 'random'):
            ts.append(dict(name=f'constructor_{cls}_{fill}_L2', op='constructor', cls=cls, fill=fill, d=2, D=(1, 2, 1), cut=8))
            ts.append(dict(name=f'constructor_{cls}_{fill}_L1', op='constructor', cls=cls, fill=fill, d=2, D=(1, 1), cut=8))
    for cls in ('mps', 'mpo'):
        for mode in ('left', 'right'):
            ts.append(dict(name=f'orthonormalize_{cls}_{mode}_L1', op='orthonormalize', cls=cls, mode=mode, d=2, D=(1, 1), cut=8))
            ts.append(dict(name=f'orthonormalize_{cls}_{mode}_L2', op='orthonormalize', cls=cls, mode=mode, d=2, D=(1, 2, 1) if cls == 'mps' else (1, 1, 1), cut=8))
            if not q:
                ts.append(dict(name=f'orthonormalize_{cls}_{mode}_L3', op='orthonormalize', cls=cls, mode=mode, d=2, D=(1, 2, 1, 1) if cls == 'mps' else (1, 1, 1, 1), cut=10))
        ts.append(dict(name=f'orthonormalize_{cls}_left_pairq', op='orthonormalize', cls=cls, mode='left', d=4 if cls == 'mps' else 2, D=(1, 2, 1) if cls == 'mps' else (1, 1, 1), qmode='pair', cut=8))
    for cls in ('mps', 'mpo'):
        ts.append(dict(name=f'zero_qnumbers_{cls}_L2', op='zero_qnumbers', cls=cls, d=2, D=(1, 2, 1) if cls == 'mps' else (1, 1, 1), free_boundary=True, cut=8))
        ts.append(dict(name=f'zero_qnumbers_{cls}_L1', op='zero_qnumbers', cls=cls, d=2, D=(1, 1), free_boundary=True, cut=8))
    for mode in ('left', 'right'):
        ts.append(dict(name=f'compress_{mode}_L1', op='compress', mode=mode, d=2, D=(1, 1), cut=8))
        ts.append(dict(name=f'compress_{mode}_L2', op='compress', mode=mode, d=2, D=(1, 1, 1) if q else (1, 2, 1), cut=10))
    for which in ('add_mps', 'sub_mps', 'add_mpo', 'sub_mpo', 'matmul', 'apply'):
        ts.append(dict(name=f'{which}_L1', op='binary', which=which, d=2, D=(1, 1), D1=(1, 1), cut=8))
        ts.append(dict(name=f'{which}_L2', op='binary', which=which, d=2, D=(1, 2, 1) if which in ('add_mps', 'sub_mps') else (1, 1, 1), D1=(1, 1, 1), cut=9))
        if not q:
            ts.append(dict(name=f'{which}_L3', op='binary', which=which, d=2, D=(1, 1, 1, 1), D1=(1, 1, 1, 1), cut=10))
    for which in ('add_mps', 'sub_mps', 'add_mpo', 'sub_mpo', 'matmul'):
        ts.append(dict(name=f'{which}_same_L2', op='binary', which=which, same=True, d=2, D=(1, 2, 1) if which in ('add_mps', 'sub_mps') else (1, 1, 1),
                       D1=(1, 2, 1) if which in ('add_mps', 'sub_mps') else (1, 1, 1), cut=9))
    for distr in ('left', 'right', 'sqrt'):
        ts.append(dict(name=f'split_{distr}', op='split', distr=distr, d0=2, d1=1, D0=1, D2=2, cut=8))
    for L in (1, 2) if q else (1, 2, 3):
        ts.append(dict(name=f'from_vector_n{L}', op='from_vector', d=2, L=L, cut=8))
    ts.append(dict(name='from_vector_n2_then_orthonormalize', op='from_vector', d=2, L=2, cut=8, followup='orthonormalize'))
    ts.append(dict(name='from_vector_n2_then_add', op='from_vector', d=2, L=2, cut=8, followup='add'))
    for variant in ('single', 'two'):
        dw = (1, 1, 1) if (q and variant == 'two') else (1, 2, 1)
        ts.append(dict(name=f'tdvp_{variant}_L2', op='tdvp', variant=variant, d=2, D=(1, 2, 1), DW=dw, qmode=task_q(q), cut=10))
        ts.append(dict(name=f'dmrg_{variant}_L2', op='dmrg', variant=variant, d=2, D=(1, 2, 1), DW=dw, qmode=task_q(q), cut=10))
        ts.append(dict(name=f'tdvp_{variant}_L2_zero', op='tdvp', variant=variant, d=2, D=(1, 2, 1), DW=(1, 2, 1), qmode='zero', cut=10))
        ts.append(dict(name=f'dmrg_{variant}_L2_zero', op='dmrg', variant=variant, d=2, D=(1, 2, 1), DW=(1, 2, 1), qmode='zero', cut=10))
        # zero steps / sweeps (only the preparation and the final bookkeeping run) and two steps in one call
        ts.append(dict(name=f'tdvp_{variant}_L2_zero_steps0', op='tdvp', variant=variant, d=2, D=(1, 2, 1), DW=(1, 2, 1), qmode='zero', nsteps=0, cut=10))
        ts.append(dict(name=f'dmrg_{variant}_L2_zero_sweeps0', op='dmrg', variant=variant, d=2, D=(1, 2, 1), DW=(1, 2, 1), qmode='zero', nsteps=0, cut=10))
        ts.append(dict(name=f'tdvp_{variant}_L2_zero_steps2', op='tdvp', variant=variant, d=2, D=(1, 2, 1), DW=(1, 1, 1), qmode='zero', nsteps=2, cut=10))
        ts.append(dict(name=f'dmrg_{variant}_L2_zero_sweeps2', op='dmrg', variant=variant, d=2, D=(1, 2, 1), DW=(1, 1, 1), qmode='zero', nsteps=2, cut=10))
        if not q:
            ts.append(dict(name=f'tdvp_{variant}_L3_zero', op='tdvp', variant=variant, d=2, D=(1, 2, 2, 1), DW=(1, 2, 2, 1), qmode='zero', cut=10))
            ts.append(dict(name=f'dmrg_{variant}_L3_zero', op='dmrg', variant=variant, d=2, D=(1, 2, 2, 1), DW=(1, 2, 2, 1), qmode='zero', cut=10))
    ts.append(dict(name='tdvp_single_L1', op='tdvp', variant='single', d=2, D=(1, 1), DW=(1, 1), cut=8))
    ts.append(dict(name='dmrg_single_L1', op='dmrg', variant='single', d=2, D=(1, 1), DW=(1, 1), cut=8))
    for model in ('ising', 'heisenberg_xxz', 'heisenberg_xxz_spin1', 'bose_hubbard', 'fermi_hubbard'):
        for L in (1, 2, 3):
            ts.append(dict(name=f'hamiltonian_{model}_L{L}', op='hamiltonian', model=model, L=L, d=3 if model == 'bose_hubbard' else None))
    for L in (1, 3):
        ts.append(dict(name=f'hamiltonian_linear_fermionic_L{L}', op='hamiltonian', model='linear_fermionic', L=L))
    ts.append(dict(name='hamiltonian_molecular_opt_L3', op='hamiltonian', model='molecular', L=3, optimize=True))
    ts.append(dict(name='hamiltonian_molecular_explicit_L4', op='hamiltonian', model='molecular', L=4, optimize=False))
    ts.append(dict(name='hamiltonian_spin_molecular_opt_L2', op='hamiltonian', model='spin_molecular', L=2, optimize=True))
    ts.append(dict(name='hamiltonian_spin_molecular_explicit_L2', op='hamiltonian', model='spin_molecular', L=2, optimize=False))
    ts.append(dict(name='identity_L2', op='identity', d=2, L=2))
    return ts


def task_q(quick):
    return 'sym'
