"""
C14  Lanczos and Arnoldi iterations satisfy their Krylov factorization relations (partial).

krylov.lanczos_iteration / arnoldi_iteration are plain arithmetic plus norm, vdot and one division per step, so
they run unmodified on symbolic maps and start vectors (np.zeros -> object arrays, division -> Rabinowitsch
inverse, norm -> sqrt contract).  Every breakdown position (beta[j] < threshold) is a branch, hence a path.

Decided:  (a) output-size consistency on EVERY termination path, n <= 3, numiter <= 4 (including numiter > n), and
              that the consumers eigh_krylov / expm_krylov hand consistent sizes to the SciPy kernels;
          (b) for numiter <= 2 and a symbolic Hermitian (general, for Arnoldi) map: V^H V = I, V^H A V = T (resp. H),
              off-diagonals positive on non-breakdown paths, H upper Hessenberg.
Outside:  relations beyond two vectors (polynomial degree grows geometrically), loss of orthogonality in floating
          point, the numerical meaning of the breakdown threshold.
"""
import itertools
import warnings
import numpy as np

from harness.common import *
from harness import concrete
from symx import shims, prover, runner, poly
from symx.engine import DeadPath
from symx.poly import Sym, S, Atom
import pytenet.krylov as K

PID = 'C14'
warnings.simplefilter('ignore')


def tasks(tier, seed):
    ts = []
    q = tier == 'quick'
    for alg in ('lanczos', 'arnoldi'):
        for n in (1, 2, 3):
            for m in (1, 2, 3, 4):
                if q and n == 3 and m == 4:
                    continue
                ts.append(dict(name=f'{alg}_shapes_n{n}_m{m}', kind='shapes', alg=alg, n=n, m=m, cplx=False, cut=5))
        for n in (1, 2, 3):
            for m in (1, 2):
                ts.append(dict(name=f'{alg}_rel_n{n}_m{m}', kind='rel', alg=alg, n=n, m=m, cplx=False, cut=5))
        if not q and alg == 'lanczos':
            # (the complex general-map Arnoldi relation at n = 2, numiter = 2 does not finish within 15 min: not part of the claim)
            ts.append(dict(name=f'{alg}_rel_n2_m2_cplx', kind='rel', alg=alg, n=2, m=2, cplx=True, cut=5))
        if not q:
            for m in (1, 2, 3, 4, 5):
                ts.append(dict(name=f'{alg}_shapes_n4_m{m}', kind='shapes', alg=alg, n=4, m=m, cplx=False, cut=5))
            # (the relation at n = 3, numiter = 3 and the Arnoldi relation at n = 4, numiter = 2 do not finish within 10 min: not part of the claim)
            for m in ((1, 2) if alg == 'lanczos' else (1,)):
                ts.append(dict(name=f'{alg}_rel_n4_m{m}', kind='rel', alg=alg, n=4, m=m, cplx=False, cut=5))
            ts.append(dict(name=f'{alg}_rel_n1_m1_cplx', kind='rel', alg=alg, n=1, m=1, cplx=True, cut=5))
            ts.append(dict(name=f'{alg}_rel_n2_m1_cplx', kind='rel', alg=alg, n=2, m=1, cplx=True, cut=5))
    for fn in ('eigh', 'expm_h', 'expm_g'):
        for n in (1, 2, 3):
            for m in (1, 2, 3) if q else (1, 2, 3, 4):
                ts.append(dict(name=f'consumer_{fn}_n{n}_m{m}', kind='consumer', fn=fn, n=n, m=m, cplx=False, cut=5))
    return ts


def required_marks(tier):
    return ['breakdown_first_step', 'breakdown_later', 'no_breakdown', 'numiter_gt_n', 'numiter_1', 'relation_checked', 'consumer_sizes_checked']


def sym_map(eng, n, hermitian, cplx):
    A = np.empty((n, n), dtype=object)
    for i in range(n):
        for j in range(n):
            if hermitian:
                if j < i:
                    continue
                if i == j:
                    A[i, i] = eng.sym(f'a{i}{i}')
                else:
                    z = eng.csym(f'a{i}{j}') if cplx else eng.sym(f'a{i}{j}')
                    A[i, j] = z; A[j, i] = z.conjugate()
            else:
                A[i, j] = eng.csym(f'a{i}{j}') if cplx else eng.sym(f'a{i}{j}')
    return A


def run_alg(alg, A, v, m):
    f = (lambda x: A.dot(x))
    if alg == 'lanczos':
        alpha, beta, V = K.lanczos_iteration(f, v, m)
        return dict(alpha=alpha, beta=beta, V=V)
    H, V = K.arnoldi_iteration(f, v, m)
    return dict(H=H, V=V)


def shape_fails(alg, out, n, m):
    fails = []
    V = out['V']
    if V.ndim != 2 or V.shape[0] != n:
        return [f'V has shape {V.shape}, expected ({n}, k)']
    k = V.shape[1]
    if not 1 <= k <= m:
        fails.append(f'number of Krylov vectors {k} not in [1, numiter = {m}]')
    if alg == 'lanczos':
        if len(out['alpha']) != k or len(out['beta']) != k - 1:
            fails.append(f'inconsistent sizes: len(alpha) = {len(out["alpha"])}, len(beta) = {len(out["beta"])}, V has {k} columns')
    else:
        if out['H'].shape != (k, k):
            fails.append(f'inconsistent sizes: H has shape {out["H"].shape}, V has {k} columns')
    return fails


def path(eng, acc, task):
    shims.reset_logs()
    n, m, alg = task['n'], task['m'], task.get('alg')
    kind = task['kind']
    if kind == 'consumer':
        return path_consumer(eng, acc, task)
    hermitian = alg == 'lanczos'
    A = sym_map(eng, n, hermitian, task['cplx'])
    v = eng.sym_array('v', (n,), cplx=task['cplx'])
    inputs = dict(alg=alg, A=A.copy(), v=list(v), m=m)
    if kind == 'shapes':
        poly.ABSTRACT[0] = 60
    if m > n:
        eng.mark('numiter_gt_n')
    if m == 1:
        eng.mark('numiter_1')
    fails = []
    try:
        out = run_alg(alg, A, v.copy(), m)
    except AssertionError as e:
        # documented precondition: non-zero starting vector (assert nrmv > 0)
        w_ = eng.sqrt_of(shims.sumsq(v))
        if eng.known(S(w_) > 0) is False:
            acc.inc('zero_start_vector_paths')
            return
        candidate(eng, acc, task, 'krylov', f'krylov:{alg}:raises:AssertionError', repr(e), inputs)
        return
    except Exception as e:
        reraise_internal(e)
        import traceback
        tb = traceback.extract_tb(e.__traceback__)[-1]
        candidate(eng, acc, task, 'krylov', f'krylov:{alg}:raises:{type(e).__name__}@{tb.lineno}', repr(e), inputs)
        return
    finally:
        poly.ABSTRACT[0] = None
    fails += shape_fails(alg, out, n, m)
    k = out['V'].shape[1] if out['V'].ndim == 2 else 0
    if not fails:
        if k < m:
            eng.mark('breakdown_first_step' if k == 1 else 'breakdown_later')
        else:
            eng.mark('no_breakdown')
    if kind == 'rel' and not fails:
        V = out['V']
        G = V.conj().T.dot(V)
        goals = [S(G[a, b]) - (1 if a == b else 0) for a in range(k) for b in range(k)]
        AV = A.dot(V)
        P = V.conj().T.dot(AV)
        if alg == 'lanczos':
            T = shims.objzeros((k, k))
            for i in range(k):
                T[i, i] = out['alpha'][i]
            for i in range(k - 1):
                T[i, i + 1] = out['beta'][i]; T[i + 1, i] = out['beta'][i]
            for i in range(k - 1):
                if eng.known(S(out['beta'][i]) > 0) is not True:
                    fails.append(f'beta[{i}] may be non-positive on a non-breakdown step')
            for i in range(k):
                if S(out['alpha'][i]).u is not None:
                    fails.append('alpha is not real')
        else:
            T = out['H']
            for i in range(k):
                for j in range(k):
                    if i > j + 1 and not is_structural_zero(T[i, j]):
                        fails.append('H is not upper Hessenberg')
        if prover.prove_escalating(eng, goals, rounds=(2, 3), acc=acc, label='vc_krylov_orthonormal', max_products=40000, maxdeg=18) != 'proved':
            fails.append('V^H V = I not proved')
        else:
            # proved facts may be used as hypotheses (lemmas) of the next VC: V^H A V = T needs V^H V = I
            for g in prover.split_goals(goals):
                if g:
                    eng.hyps.append(g); eng.hyp_tags.append('lemma')
            pgoals = [S(P[a, b]) - S(T[a, b]) for a in range(k) for b in range(k)]
            if prover.prove_escalating(eng, pgoals, rounds=(1, 2, 3), acc=acc, label='vc_krylov_projection', max_products=40000, maxdeg=24) != 'proved':
                fails.append('V^H A V = T not proved')
        eng.mark('relation_checked')
    acc.inc('nontrivial_paths')
    if acc.get('#samples') < 3 and n >= 2 and m >= 2:
        acc.add('samples', sample(eng, task, dict(k=k, numiter=m, n=n)))
    if fails:
        candidate(eng, acc, task, 'krylov', f'krylov:{alg}:' + fails[0][:40], '; '.join(fails), inputs)


def path_consumer(eng, acc, task):
    """eigh_krylov / expm_krylov with the SciPy kernels replaced by size-checking stubs returning fresh symbols"""
    n, m, fn = task['n'], task['m'], task['fn']
    hermitian = fn in ('eigh', 'expm_h')
    A = sym_map(eng, n, hermitian, False)
    v = eng.sym_array('v', (n,))
    inputs = dict(alg=fn, A=A.copy(), v=list(v), m=m)
    seen = []

    def eigh_tridiagonal_stub(alpha, beta):
        k = len(alpha)
        if len(beta) != k - 1:
            raise ValueError(f'eigh_tridiagonal: len(alpha) = {k}, len(beta) = {len(beta)}')
        seen.append(('eigh_tridiagonal', k))
        return eng.sym_array(f'w{len(seen)}', (k,), role='stub'), eng.sym_array(f'u{len(seen)}', (k, k), role='stub')

    def expm_stub(M):
        M = np.asarray(M)
        if M.ndim != 2 or M.shape[0] != M.shape[1]:
            raise ValueError(f'expm: non-square argument {M.shape}')
        seen.append(('expm', M.shape[0]))
        return eng.sym_array(f'e{len(seen)}', M.shape, role='stub')

    old = (K.eigh_tridiagonal, K.expm, K.np.exp if hasattr(K.np, 'exp') else None)
    K.eigh_tridiagonal = eigh_tridiagonal_stub
    K.expm = expm_stub
    real_exp = np.exp

    class _ExpProxy(type(K.np)):
        pass
    poly.ABSTRACT[0] = 60
    if m > n:
        eng.mark('numiter_gt_n')
    fails = []
    try:
        f = (lambda x: A.dot(x))
        if fn == 'eigh':
            w, u = K.eigh_krylov(f, v.copy(), m, 1)
            if len(w) != 1 or u.shape != (n, 1):
                fails.append(f'eigh_krylov returned shapes {np.shape(w)}, {u.shape}')
        else:
            # exp(dt * w_hess) on symbolic Ritz values: replace by fresh symbols through the object-array .exp() hook
            _orig_exp = Sym.exp
            Sym.exp = lambda self: eng.sym(f'exp{len(poly.VARS)}', 'real', 'stub')
            try:
                r = K.expm_krylov(f, v.copy(), eng.sym('dt'), m, hermitian=(fn == 'expm_h'))
            finally:
                Sym.exp = _orig_exp
            if np.shape(r) != (n,):
                fails.append(f'expm_krylov returned shape {np.shape(r)}, expected ({n},)')
    except AssertionError as e:
        w_ = eng.sqrt_of(shims.sumsq(v))
        if eng.known(S(w_) > 0) is False:
            acc.inc('zero_start_vector_paths')
            return
        candidate(eng, acc, task, 'krylov', f'krylov:{fn}:raises:AssertionError', repr(e), inputs)
        return
    except Exception as e:
        reraise_internal(e)
        import traceback
        tb = traceback.extract_tb(e.__traceback__)[-1]
        candidate(eng, acc, task, 'krylov', f'krylov:{fn}:raises:{type(e).__name__}@{tb.lineno}', repr(e), inputs)
        return
    finally:
        poly.ABSTRACT[0] = None
        K.eigh_tridiagonal, K.expm = old[0], old[1]
    if not seen:
        fails.append('SciPy kernel was not called')
    eng.mark('consumer_sizes_checked')
    acc.inc('nontrivial_paths')
    if fails:
        candidate(eng, acc, task, 'krylov', f'krylov:{fn}:' + fails[0][:40], '; '.join(fails), inputs)


def validate(seed, tier):
    rng = np.random.default_rng(seed)
    n_ok = 0
    for alg in ('lanczos', 'arnoldi', 'eigh', 'expm_h', 'expm_g'):
        for n, m in ((1, 1), (2, 2), (3, 2), (3, 3), (2, 4), (4, 3)):
            M = rng.standard_normal((n, n))
            if alg in ('lanczos', 'eigh', 'expm_h'):
                M = M + M.T
            runner.concrete_check('krylov', dict(alg=alg, A=M.tolist(), v=rng.standard_normal(n).tolist(), m=m))
            n_ok += 1
    # dtype mixes (erased by the symbolic encoding): real / integer start vector with a complex map, complex vector with a real map
    for alg in ('lanczos', 'arnoldi', 'expm_g'):
        for n, m in ((2, 2), (3, 2), (4, 3)):
            M = rng.standard_normal((n, n)) + 1j * rng.standard_normal((n, n))
            if alg == 'lanczos':
                M = M + M.conj().T
            runner.concrete_check('krylov', dict(alg=alg, A=M.tolist(), v=rng.standard_normal(n).tolist(), m=m))
            runner.concrete_check('krylov', dict(alg=alg, A=M.tolist(), v=[float(x) for x in rng.integers(1, 4, size=n)], m=m, v_int=True))
            runner.concrete_check('krylov', dict(alg=alg, A=M.real.tolist(), v=(rng.standard_normal(n) + 1j * rng.standard_normal(n)).tolist(), m=m))
            n_ok += 3
    return dict(concrete_inputs_checked=n_ok)


def evidence(tier, seed, total, per_task, val):
    ts = tasks(tier, seed)
    return dict(
        level='other',
        coverage=dict(
            explanation='bounded symbolic execution of the real Lanczos / Arnoldi iterations in exact arithmetic: symbolic (Hermitian / general) '
                        'map and start vector, every breakdown position a path (z3 QF_LRA feasibility on the linearised condition); output-size '
                        'consistency checked on every path; for numiter <= 2 the relations V^H V = I, V^H A V = T/H are decided by linearised '
                        'ideal membership modulo the sqrt / inverse definitions',
            functions_encoded=['krylov.lanczos_iteration', 'krylov.arnoldi_iteration', 'krylov.eigh_krylov (size plumbing)', 'krylov.expm_krylov (size plumbing)'],
            bounds=dict(n='1..3', numiter='1..4 for sizes (let-abstraction above 60 monomials), 1..2 for the relations', complex_map='thorough tier, n = 2, Hermitian (Lanczos) only'),
            stubs=['np.linalg.norm -> sqrt contract', 'division -> Rabinowitsch inverse', 'scipy eigh_tridiagonal / expm / exp -> size-checking stubs returning fresh symbols (consumer tasks only)'],
            outside=['orthogonality and the three-term relation beyond the second vector', 'floating-point loss of orthogonality',
                     'the numerical meaning of the breakdown threshold 100 n eps', 'Ritz values / exponentials (C15)'],
            distinct_nontrivial=int(total.get('nontrivial_paths')),
            rule='one case = one feasible path = (algorithm, n, numiter, breakdown position)',
            zero_start_vector_paths_excluded=int(total.get('zero_start_vector_paths')),
            obligations=int(total.get('vc_goals')),
            vc_results={k: int(v) for k, v in total.c.items() if k.startswith('vc_') and k.split('_')[-1] in ('proved', 'trivial', 'unknown', 'unproved', 'escalations')},
            samples=total.l.get('samples', []),
            exhaustive=False,
        ),
        assumptions=IDEALISATIONS[:1] + ['non-zero starting vector (the code asserts it)'],
    )


if __name__ == '__main__':
    runner.main('harness.c14')
