"""
C13  Compression and vector-to-MPS conversion obey their truncation error bounds (partial).

MPS.compress runs unmodified (QR contract for the canonicalisation, SVD contract for the truncation sweep) on a
symbolic block-sparse state with symbolic tolerance.
Decided:  block sparsity, canonical (isometric) form and len(qD) consistency afterwards; bond dimensions never grow;
          the truncation at the FIRST truncated bond obeys the C12 rule on the normalised weights; for tol = 0:
          nrm * scale * dense(new) = dense(old) (exactness, L <= 3) and nothing is discarded;
          MPS.from_vector(tol = 0) exactness is decided under C03.
          for L = 2 (D <= 2, both modes, symbolic tolerance): scale^2 + discarded relative weight = 1 and hence
          1 - L tol <= scale^2 <= 1, by a chain of lemmas (unit norm of the tensor handed to the first SVD, Frobenius
          identity of the SVD contract, w = 1, last singular value^2 = retained weight) each proved by the linearised
          prover from the hypotheses and the previous lemmas.
Outside:  the scale bound for L >= 3, the error identity ||psi - nrm scale psi'||^2 = nrm^2 (1 - scale^2) and the bound
          nrm sqrt(L tol) (the overlap lemma <old, new> = nrm scale stays unproved at rounds <= 3), from_vector(tol > 0).
"""
import itertools
import numpy as np

from harness.common import *
from harness import concrete, tn
from harness import c12
from symx import shims, prover, runner
from symx.engine import DeadPath
from symx.poly import Sym, S, Atom, SymDivisionByZero
import pytenet as ptn

PID = 'C13'

# observer (behaviour-preserving): snapshot of the site tensors at the moment of the first truncated SVD of a compress() call
FIRST_SVD = {}
CURRENT = {}
import pytenet.mps as _mps_mod
_orig_split = _mps_mod.split_matrix_svd


def _observed_split(A, q0, q1, tol):
    if 'A' not in FIRST_SVD and CURRENT.get('psi') is not None:
        FIRST_SVD['A'] = [a.copy() for a in CURRENT['psi'].A]
    return _orig_split(A, q0, q1, tol)


_mps_mod.split_matrix_svd = _observed_split


def tasks(tier, seed):
    ts = []
    q = tier == 'quick'

    def add(mode, d, D, qmode, tolmode, cut=8):
        ts.append(dict(name=f'compress_{mode}_d{d}_D{"".join(map(str, D))}_{qmode}_tol{tolmode}', mode=mode, d=d, D=D, qmode=qmode,
                       tolmode=tolmode, cut=cut))
    for mode in ('left', 'right'):
        add(mode, 2, (1, 1), 'zero', 'sym'); add(mode, 2, (1, 1), 'sym', 'sym')
        add(mode, 2, (1, 1, 1), 'zero', 'sym'); add(mode, 2, (1, 2, 1), 'zero', 'sym'); add(mode, 2, (1, 1, 1), 'zero', 'zero')
        ts[-2]['bounds'] = True; ts[-3]['bounds'] = True
        if not q:
            add(mode, 2, (1, 2, 1), 'zero', 'zero')
        add(mode, 1, (1, 2, 1), 'zero', 'sym')
        # three Schmidt values at the cut: the smallest shape on which a tolerance below 1/L can cut through a degenerate plateau
        # (67 s for the two modes on the unchanged tree: thorough tier only)
        if not q:
            ts.append(dict(name=f'compress_{mode}_d3_D131_zero_tolsym_rule', mode=mode, d=3, D=(1, 3, 1), qmode='zero', tolmode='sym', cut=9, exact=False, rule_only=True))
        add(mode, 2, (1, 1, 1), 'sym', 'sym', cut=10)
        ts.append(dict(name=f'compress_{mode}_d2_D1111_zero_tolsym_structural', mode=mode, d=2, D=(1, 1, 1, 1), qmode='zero', tolmode='sym', cut=8, exact=False))
        # (exactness at L = 3 is not provable within the product budget: rounds 4-5 exceed 6e4 products -> 'unknown'; structural VCs only)
        if not q:
            add(mode, 2, (1, 2, 1), 'sym', 'sym', cut=12); add(mode, 2, (1, 2, 2, 1), 'zero', 'zero', cut=10)
            add(mode, 2, (1, 2, 1, 1), 'zero', 'sym', cut=10); add(mode, 2, (1, 3, 1), 'zero', 'sym', cut=10)
    return ts


def required_marks(tier):
    return ['scale_identity_checked', 'truncated_at_first_bond', 'nothing_truncated', 'exactness_checked', 'canonical_checked', 'phase_negative', 'phase_positive', 'schmidt_complement_checked']


def path(eng, acc, task):
    mode, d, Dims = task['mode'], task['d'], task['D']
    L = len(Dims) - 1
    shims.reset_logs(); c12.RBI_LOG.clear()
    if task['qmode'] == 'zero':
        qd = np.zeros(d, dtype=int); qD = [np.zeros(n, dtype=int) for n in Dims]
    else:
        qd = eng.sym_array('qd', (d,), 'int'); qD = [eng.sym_array(f'qD{i}', (n,), 'int') for i, n in enumerate(Dims)]
    psi = tn.sym_mps(eng, 'A', d, Dims, qd, qD)
    if task['tolmode'] == 'zero':
        tol = 0
    else:
        tol = eng.sym('tol')
        eng.assume(tol >= 0); eng.assume(tol * L < 1)
    inputs = dict(mode=mode, tol=tol, x=tn.mps_json(psi))
    old_dense = tn.dense_vec(psi)
    old_dims = list(psi.bond_dims)
    if all(is_structural_zero(v) for v in old_dense):
        acc.inc('zero_state_paths')
        return          # property is about non-zero states
    fails = []
    FIRST_SVD.clear(); CURRENT['psi'] = psi
    shims.FROBENIUS_LEMMA[0] = bool(task.get('bounds'))
    try:
        nrm, scale = psi.compress(tol, mode=mode)
    except SymDivisionByZero:
        acc.inc('zero_state_paths')      # trailing factor T == 0: the state is zero on this path (outside the property)
        return
    except Exception as e:
        reraise_internal(e)
        import traceback
        tb = traceback.extract_tb(e.__traceback__)[-1]
        # the state is zero on this path iff the truncation routine took its norm(s) == 0 branch somewhere
        if any(c12.zero_path(eng, given) for given, idx in c12.RBI_LOG if given):
            acc.inc('zero_state_paths')
            return
        candidate(eng, acc, task, 'compress', f'compress:{mode}:raises:{type(e).__name__}@{tb.name}', repr(e), inputs)
        return
    if any(c12.zero_path(eng, given) for given, idx in c12.RBI_LOG if given):
        acc.inc('zero_state_paths')
        return
    if any(len(idx) == 0 for _, idx in c12.RBI_LOG):
        candidate(eng, acc, task, 'compress', f'compress:{mode}:all singular values discarded', 'a truncation discarded every singular value of a non-zero state', inputs)
        return
    fails += tn.invariant_fails(psi, 'mps', 'result')
    if eng.known(S(nrm) >= 0) is not True or eng.known(S(scale) >= 0) is not True:
        fails.append('returned norm or scale may be negative')
    sc = S(scale)
    if not sc.is_const() and any(c < 0 for c in sc.t.values()):
        eng.mark('phase_negative')
    else:
        eng.mark('phase_positive')
    if not fails:
        nd = psi.bond_dims
        if any(a > b for a, b in zip(nd, old_dims)):
            fails.append(f'bond dimensions grew: {old_dims} -> {nd}')
        fails += tn.sparsity_fails(eng, acc, psi, 'mps', 'result')
        if not task.get('rule_only'):
            # canonical form: every tensor is an isometry in the sweep direction (the last one after the phase absorption)
            from harness.c01 import iso_goals
            ig = []
            for i in range(L):
                ig += iso_goals(psi.A[i], 'mps', mode)
            if prover.prove_escalating(eng, ig, rounds=(1, 2, 3), acc=acc, label='vc_canonical') != 'proved':
                fails.append('result is not in canonical form')
            eng.mark('canonical_checked')
        # truncation rule at the first truncated bond
        if c12.RBI_LOG:
            given, idx = c12.RBI_LOG[0]
            trunc_anywhere = any(len(i2) < len(g2) for g2, i2 in c12.RBI_LOG)
            if len(idx) < len(given):
                eng.mark('truncated_at_first_bond')
            if not trunc_anywhere:
                eng.mark('nothing_truncated')
            if not c12.zero_path(eng, given):
                c12.truncation_vcs(eng, acc, given, [given[i] for i in idx], tol, fails)
                # the values handed to the first truncation are the Schmidt values iff the part of the chain that has not been swept
                # yet is in the opposite canonical form at that moment (snapshot taken by the observer of split_matrix_svd)
                snapA = FIRST_SVD.get('A')
                if snapA is None:
                    fails.append('no truncated SVD was observed')
                elif L >= 2:
                    from harness.c01 import iso_goals
                    comp = range(1, L) if mode == 'left' else range(0, L - 1)
                    cg = []
                    for i_ in comp:
                        cg += iso_goals(snapA[i_], 'mps', 'right' if mode == 'left' else 'left')
                    if prover.prove_escalating(eng, cg, rounds=(1, 2), acc=acc, label='vc_complement_canonical') != 'proved':
                        fails.append('at the first truncation the rest of the chain is not in the opposite canonical form: the truncated values are not Schmidt values')
                    eng.mark('schmidt_complement_checked')
            # scale identity and bounds for L = 2 (a single truncated bond), by a chain of lemmas each proved from the hypotheses and the
            # previous ones:  sum s_i^2 = 1 (the state handed to the first SVD is normalised);  s'^2 = sum_kept s_i^2 (s' = the single
            # singular value of the last site);  scale^2 = s'^2;  hence scale^2 = retained relative weight, and with the truncation rule
            # 1 - L tol <= 1 - tol <= scale^2 <= 1
            if task.get('bounds') and L == 2 and len(c12.RBI_LOG) == 2 and not c12.zero_path(eng, given):
                given2, idx2 = c12.RBI_LOG[1]
                ok_chain = len(given2) == 1 and len(idx2) == 1
                lemmas = []
                if ok_chain:
                    tot = c12.sum_sq(given)
                    kept_sq = c12.sum_sq([given[i_] for i_ in idx])
                    site = 0 if mode == 'left' else L - 1
                    a_sq = c12.sum_sq(list(FIRST_SVD['A'][site].reshape(-1)))
                    lemmas = [('tensor handed to the first SVD has unit norm', a_sq - 1),
                              ('sum of squared singular values = squared norm of the tensor', tot - a_sq),
                              ('last singular value^2 = retained weight', S(given2[0]) * S(given2[0]) - kept_sq),
                              ('scale^2 = last singular value^2', S(scale) * S(scale) - S(given2[0]) * S(given2[0]))]
                    w_, winv_, t_ = c12.weights(eng, given)
                    lemmas.insert(2, ('the weights are normalised by 1 (w^2 = 1)', S(w_) * S(w_) - 1))
                    lemmas.insert(3, ('1/w^2 = 1', S(winv_) * S(winv_) - 1))
                    for nm_, g_ in lemmas:
                        r_ = prover.prove_escalating(eng, [g_], rounds=(1, 2, 3), acc=acc, label='vc_scale_lemma')
                        if r_ != 'proved':
                            fails.append(f'scale identity: lemma "{nm_}" not proved')
                            ok_chain = False
                            break
                        eng.hyps.append(dict(g_.t)); eng.hyp_tags.append('lemma')
                if ok_chain:
                    sc2 = S(scale) * S(scale)
                    atoms_b = [a for a in (sc2 <= 1, sc2 >= 1 - L * S(tol)) if isinstance(a, Atom)]
                    dsum_ = Sym()
                    for k_, ti_ in enumerate(t_):
                        if k_ not in idx:
                            dsum_ = dsum_ + ti_
                    g_fin = sc2 + dsum_ - 1
                    if prover.prove_escalating(eng, [g_fin], rounds=(1, 2, 3), acc=acc, label='vc_scale_identity') != 'proved':
                        fails.append(f'scale^2 + discarded relative weight = 1 not proved (kept {list(idx)} of {len(given)})')
                    else:
                        eng.hyps.append(dict(g_fin.t)); eng.hyp_tags.append('lemma')
                        if atoms_b and prover.prove(eng, goal_atoms=atoms_b, rounds=1, acc=acc, label='vc_scale_bounds') != 'proved':
                            fails.append('scale bounds 1 - L tol <= scale^2 <= 1 not proved')
                    eng.mark('scale_identity_checked')
                    # vacuity: with the lemmas appended the hypotheses must still be consistent (a shifted goal must NOT be provable)
                    if acc.get('scale_canary') < 3:
                        acc.inc('scale_canary')
                        if not prover.canary(eng, g_fin, rounds=2):
                            fails.append('canary proved after the lemma chain: hypotheses inconsistent (vacuous)')
            # exactness whenever nothing was discarded anywhere (in particular for tol = 0 after promoting zero weights)
            if task['tolmode'] == 'zero':
                eng.promote_zeros()
            cheap = L == 1 or max(Dims) == 1
            want = (not trunc_anywhere and (cheap or task.get('exact_all'))) or \
                   (trunc_anywhere and task['tolmode'] == 'zero' and (cheap or task.get('exact_all')))
            if trunc_anywhere and task['tolmode'] == 'zero' and not want:
                acc.inc('rank_deficient_tol0_paths_exactness_skipped')
            if want and task.get('exact', True):
                new_dense = tn.dense_vec(psi)
                f = S(nrm) * S(scale)
                goals = [f * S(b) - S(a) for a, b in zip(old_dense, new_dense)]
                if prover.prove_escalating(eng, goals, rounds=(2, 3) if L <= 2 else (4, 5), acc=acc, label='vc_exact', max_products=60000) != 'proved':
                    fails.append('nothing discarded (or tol = 0) but nrm * scale * dense(new) != dense(old)')
                eng.mark('exactness_checked')
    acc.inc('nontrivial_paths')
    if acc.get('#samples') < 3 and L >= 2:
        acc.add('samples', sample(eng, task, dict(bond_dims=[old_dims, list(psi.bond_dims)], truncations=[(len(g), len(i)) for g, i in c12.RBI_LOG])))
    if fails:
        candidate(eng, acc, task, 'compress', f'compress:{mode}:' + fails[0][:40], '; '.join(fails), inputs)


def validate(seed, tier):
    rng = np.random.default_rng(seed)
    n = 0
    for mode in ('left', 'right'):
        for L in (1, 2, 3, 4):
            for tol in (0.0, 0.01, 0.2 / L):
                inp = concrete.random_state_input(rng, 'mps', L, Dmax=4)
                inp.update(mode=mode, tol=tol)
                runner.concrete_check('compress', inp)
                n += 1
                inp = concrete.random_state_input(rng, 'mps', L, Dmax=3, integer=True, qrange=(0, 1))
                inp.update(mode=mode, tol=tol)
                runner.concrete_check('compress', inp)
                n += 1
    # the opt-in lemma of the SVD stub (sum |a_ij|^2 = sum s_k^2) against LAPACK
    for trial in range(5):
        M = rng.standard_normal((3, 2)) + 1j * rng.standard_normal((3, 2))
        sv = shims._orig['svd'](M, full_matrices=False)[1]
        if abs(np.sum(np.abs(M) ** 2) - np.sum(sv ** 2)) > 1e-10 * np.sum(sv ** 2):
            raise runner.HarnessError('LAPACK SVD violates the Frobenius identity?')
    return dict(concrete_inputs_checked=n, svd_frobenius_lemma_validated=5)


def evidence(tier, seed, total, per_task, val):
    ts = tasks(tier, seed)
    return dict(
        level='other',
        coverage=dict(
            explanation='bounded symbolic execution of the real MPS.compress (QR canonicalisation + truncated block-SVD sweep) with symbolic '
                        'entries, charges and tolerance; QR / SVD replaced by their contracts; truncation outcomes are paths; VCs: block sparsity '
                        '(QF_LIA), canonical form and exactness when nothing is discarded (linearised ideal membership, QF_LRA), truncation rule at '
                        'the first truncated bond (QF_LRA inequalities)',
            functions_encoded=['MPS.compress', 'MPS.orthonormalize', 'local_orthonormalize_left_svd', 'local_orthonormalize_right_svd',
                               'split_matrix_svd', 'retained_bond_indices', 'bond_ops.qr'],
            bounds=dict(tasks=[t['name'] for t in ts]),
            stubs=['np.linalg.qr contract', 'np.linalg.svd contract', 'norm / abs / division stubs'],
            outside=['scale >= sqrt(1 - L tol), error <= nrm sqrt(L tol), Pythagoras identity for tol > 0', 'from_vector with tol > 0',
                     'scale = 1 at tol = 0 as a separate VC', 'zero states'],
            distinct_nontrivial=int(total.get('nontrivial_paths')),
            rule='one case = one feasible path (shape x charge pattern x sign branches x truncation outcome) on which the state is not forced to be zero',
            rank_deficient_tol0_paths_exactness_skipped=int(total.get('rank_deficient_tol0_paths_exactness_skipped')),
            zero_state_paths_excluded=int(total.get('zero_state_paths')),
            obligations=int(total.get('vc_goals')),
            vc_results={k: int(v) for k, v in total.c.items() if k.startswith('vc_') and k.split('_')[-1] in ('proved', 'trivial', 'unknown', 'unproved', 'escalations')},
            samples=total.l.get('samples', []),
            exhaustive=False,
        ),
        assumptions=IDEALISATIONS + ['QR and SVD contracts'],
    )


if __name__ == '__main__':
    runner.main('harness.c13')
