"""
C04  Inner products, expectation values and environment blocks match dense results.

Everything in pytenet.operation (except apply_operator, see C03) runs on symbolic tensors with *complex* entries
(so the conjugated side is distinguishable); each returned scalar / tensor is compared with the dense quantity
computed by an explicit-loop oracle.  All VCs are polynomial identities: they hold for every value of every
entry, in particular for every block-sparse tensor, i.e. for every quantum-number assignment (the code under
test never reads the quantum numbers).
"""
import itertools
import numpy as np

from harness.common import *
from harness import concrete, tn
from refs import dense as DN
from symx import shims, prover, runner
from symx.engine import DeadPath, run_concrete
from symx.poly import Sym, S
import pytenet as ptn
from pytenet import operation as OP
from pytenet.mps import merge_mps_tensor_pair
from pytenet.mpo import merge_mpo_tensor_pair

PID = 'C04'


def profiles(L, Dmax):
    return [(1,) + p + (1,) for p in itertools.product(range(1, Dmax + 1), repeat=L - 1)]


def tasks(tier, seed):
    ts = []
    q = tier == 'quick'
    for L in (1, 2, 3):
        for cplx in (False, True):
            if cplx and L == 3:
                continue      # complex entries at L = 3: polynomial sizes exhaust memory (a worker was killed); stated bound
            ts.append(dict(name=f'scalars_L{L}_{"c" if cplx else "r"}', kind='scalars', L=L, d=2, Dmax=2, DW=2, cplx=cplx, cut=3))
    for L in (1, 2, 3):
        for cplx in (False, True):
            if cplx and L == 3:
                continue
            for site in range(L):
                ts.append(dict(name=f'local1_L{L}_s{site}_{"c" if cplx else "r"}', kind='local1', L=L, site=site, d=2, Dmax=2, DW=2, cplx=cplx, cut=3))
            for site in range(L - 1):
                ts.append(dict(name=f'local2_L{L}_s{site}_{"c" if cplx else "r"}', kind='local2', L=L, site=site, d=2, Dmax=2, DW=2, cplx=cplx, cut=3))
                ts.append(dict(name=f'local0_L{L}_b{site}_{"c" if cplx else "r"}', kind='local0', L=L, site=site, d=2, Dmax=2, DW=2, cplx=cplx, cut=3))
    for L in (1, 2):
        for site in range(L):
            ts.append(dict(name=f'hermitian_L{L}_s{site}', kind='hermitian', L=L, site=site, d=2, Dmax=2, DW=2, cplx=True, cut=3))
    # environment blocks with a bra different from the ket (independent bond profiles): <Y|H_loc X> = <chi[i<-Y]| H |psi[i<-X]>
    for L in (2, 3):
        for cplx in (False, True):
            if cplx and L == 3:
                continue
            for site in range(L):
                ts.append(dict(name=f'mixed_L{L}_s{site}_{"c" if cplx else "r"}', kind='mixed', L=L, site=site, d=2, Dmax=2, DW=2, cplx=cplx, cut=4))
    ts.append(dict(name='steps_L2', kind='steps', L=2, d=2, Dmax=2, DW=2, cplx=True, cut=3))
    # longer chains with all bond dimensions 1 (product states and product operators): length-dependent slips (every k-th site, last site,
    # L >= 4) for all entry values
    for L in (4, 5, 6):
        ts.append(dict(name=f'scalars_L{L}_D1_r', kind='scalars', L=L, d=2, Dmax=1, DW=1, cplx=False, cut=3))
    # (complex entries at L = 5 do not finish within 10 min even for bond dimension 1: not part of the claim)
    if not q:
        for site in range(2):
            ts.append(dict(name=f'local1_L2_s{site}_r_D3', kind='local1', L=2, site=site, d=2, Dmax=3, DW=3, cplx=False, cut=3))
            ts.append(dict(name=f'mixed_L2_s{site}_r_D3', kind='mixed', L=2, site=site, d=2, Dmax=3, DW=2, cplx=False, cut=4))
        ts.append(dict(name='scalars_L2_r_D3', kind='scalars', L=2, d=2, Dmax=3, DW=3, cplx=False, cut=3))
        ts.append(dict(name='scalars_L2_r_d3', kind='scalars', L=2, d=3, Dmax=2, DW=2, cplx=False, cut=3))
        for site in range(4):
            ts.append(dict(name=f'local1_L4_s{site}_r', kind='local1', L=4, site=site, d=2, Dmax=2, DW=2, cplx=False, cut=3))
        for site in range(3):
            ts.append(dict(name=f'local2_L4_s{site}_r', kind='local2', L=4, site=site, d=2, Dmax=2, DW=2, cplx=False, cut=3))
            ts.append(dict(name=f'local0_L4_b{site}_r', kind='local0', L=4, site=site, d=2, Dmax=2, DW=2, cplx=False, cut=3))
        for site in range(3):
            ts.append(dict(name=f'mixed_L3_s{site}_r_d3', kind='mixed', L=3, site=site, d=3, Dmax=2, DW=2, cplx=False, cut=4))
        ts.append(dict(name='steps_L3', kind='steps', L=3, d=2, Dmax=2, DW=2, cplx=True, cut=3))
    return ts


def required_marks(tier):
    return ['bra_ket_profiles_differ', 'mixed_environment', 'complex_entries', 'local_one_site', 'local_two_site', 'local_zero_site', 'hermitian_mpo',
            'norm_sqrt_stub']


def build(eng, task, tags, kinds, profs=None):
    L, d = task['L'], task['d']
    qd = np.zeros(d, dtype=int)
    out = []
    used = []
    for k, (tag, kind) in enumerate(zip(tags, kinds)):
        Dmax = task['DW'] if kind == 'mpo' else task['Dmax']
        if profs is not None and profs[k] is not None:
            P = profs[k]
        else:
            ps = profiles(L, Dmax)
            P = ps[eng.choose(len(ps), f'prof{tag}')]
        used.append(P)
        qD = [np.zeros(n, dtype=int) for n in P]
        out.append(tn.sym_mps(eng, tag, d, P, qd, qD, task['cplx']) if kind == 'mps' else tn.sym_mpo(eng, tag, d, P, qd, qD, task['cplx']))
    if task['cplx']:
        eng.mark('complex_entries')
    return out, used


def cj(x):
    return S(x).conjugate()


def braket(vb, M, vk):
    """sum_rc conj(vb_r) M_rc vk_c"""
    tot = Sym()
    for r in range(len(vb)):
        row = Sym()
        for c in range(len(vk)):
            x = M[r, c]
            if not isinstance(x, Sym) and x == 0:
                continue
            row = row + S(x) * S(vk[c])
        tot = tot + cj(vb[r]) * row
    return tot


def hermitian_mpo(eng, tag, d, P):
    """MPO whose tensors are Hermitian in the physical indices for every bond index pair"""
    op = ptn.MPO(np.zeros(d, dtype=int), [np.zeros(n, dtype=int) for n in P], fill='postpone')
    for i in range(len(P) - 1):
        W = shims.objzeros((d, d, P[i], P[i + 1]))
        for a in range(P[i]):
            for b in range(P[i + 1]):
                for s in range(d):
                    W[s, s, a, b] = eng.sym(f'{tag}{i}_{s}{s}{a}{b}')
                    for t in range(s + 1, d):
                        z = eng.csym(f'{tag}{i}_{s}{t}{a}{b}')
                        W[s, t, a, b] = z
                        W[t, s, a, b] = z.conjugate()
        op.A[i] = W
    return op


def left_blocks(psi, H, upto):
    BL = [np.array([[[1]]], dtype=object)]
    for i in range(upto):
        BL.append(OP.contraction_operator_step_left(psi.A[i], psi.A[i], H.A[i], BL[i]))
    return BL


def path(eng, acc, task):
    kind = task['kind']
    L = task['L']
    shims.reset_logs()
    fails = []
    pairs = []
    inputs = dict(kind=kind, L=L, site=task.get('site'))
    try:
        if kind == 'scalars':
            (psi, chi, H, rho), used = build(eng, task, ['A', 'B', 'W', 'R'], ['mps', 'mps', 'mpo', 'mpo'])
            if used[0] != used[1]:
                eng.mark('bra_ket_profiles_differ')
            inputs.update(psi=tn.mps_json(psi), chi=tn.mps_json(chi), H=tn.mps_json(H), rho=tn.mps_json(rho))
            snap = snapshot(psi.A + chi.A + H.A + rho.A)
            vp, vc = tn.dense_vec(psi), tn.dense_vec(chi)
            M, Rm = tn.dense_mat(H), tn.dense_mat(rho)
            n = len(vp)
            I = np.empty((n, n), dtype=object); I.fill(0)
            for i in range(n):
                I[i, i] = 1
            pairs.append((OP.vdot(chi, psi), braket(vc, I, vp)))
            pairs.append((OP.operator_average(psi, H), braket(vp, M, vp)))
            pairs.append((OP.operator_inner_product(chi, H, psi), braket(vc, M, vp)))
            tr = Sym()
            for i in range(n):
                for j in range(n):
                    tr = tr + S(M[i, j]) * S(Rm[j, i])
            pairs.append((OP.operator_density_average(rho, H), tr))
            nrm = OP.norm(psi)
            eng.mark('norm_sqrt_stub')
            n2 = Sym()
            for x in vp:
                n2 = n2 + S(x).abs2()
            extra_goal = S(nrm) * S(nrm) - n2
            # obligation raised by the sqrt stub: its argument <psi|psi>.real must be >= 0; discharged by showing that it
            # equals the manifestly non-negative sum of |psi_s|^2
            for kind_, arg in eng.obligations:
                if prover.prove(eng, pairs=[(arg, n2)], rounds=0, acc=acc, label='vc_sqrt_arg') != 'proved':
                    fails.append('sqrt taken of a quantity that is not the squared norm')
            if eng.known(S(nrm) >= 0) is not True:
                fails.append('norm() may be negative')
            if prover.prove_escalating(eng, [extra_goal], rounds=(1, 2), acc=acc, label='vc_norm') != 'proved':
                fails.append('norm(psi)^2 differs from sum |psi_s|^2')
            if not unchanged(snap):
                fails.append('an argument was modified')
        elif kind in ('local1', 'local2', 'local0', 'hermitian'):
            if kind == 'hermitian':
                psi = build(eng, task, ['A'], ['mps'])[0][0]
                ps = profiles(L, task['DW'])
                H = hermitian_mpo(eng, 'W', task['d'], ps[eng.choose(len(ps), 'profW')])
                eng.mark('hermitian_mpo')
            else:
                (psi, H), _ = build(eng, task, ['A', 'W'], ['mps', 'mpo'])
            inputs.update(psi=tn.mps_json(psi), H=tn.mps_json(H))
            snap = snapshot(psi.A + H.A)
            i = task['site']
            M = tn.dense_mat(H)
            BR = OP.compute_right_operator_blocks(psi, H)
            if kind in ('local1', 'hermitian'):
                eng.mark('local_one_site')
                BL = left_blocks(psi, H, i)
                shape = psi.A[i].shape
                X = eng.sym_array('X', shape, cplx=task['cplx']); Y = eng.sym_array('Y', shape, cplx=task['cplx'])
                inputs.update(X=X, Y=Y)
                HX = OP.apply_local_hamiltonian(BL[i], BR[i], H.A[i], X)
                lhs = Sym()
                for idx in np.ndindex(*shape):
                    lhs = lhs + cj(Y[idx]) * S(HX[idx])
                AX = list(psi.A); AX[i] = X
                AY = list(psi.A); AY[i] = Y
                rhs = braket(DN.dense_mps(AY), M, DN.dense_mps(AX))
                pairs.append((lhs, rhs))
                if kind == 'hermitian':
                    HY = OP.apply_local_hamiltonian(BL[i], BR[i], H.A[i], Y)
                    other = Sym()
                    for idx in np.ndindex(*shape):
                        other = other + cj(X[idx]) * S(HY[idx])
                    pairs.append((lhs, other.conjugate()))
            elif kind == 'local2':
                eng.mark('local_two_site')
                BL = left_blocks(psi, H, i)
                Hm = merge_mpo_tensor_pair(H.A[i], H.A[i + 1])
                Am = merge_mps_tensor_pair(psi.A[i], psi.A[i + 1])
                shape = Am.shape
                X = eng.sym_array('X', shape, cplx=task['cplx']); Y = eng.sym_array('Y', shape, cplx=task['cplx'])
                inputs.update(X=X, Y=Y)
                HX = OP.apply_local_hamiltonian(BL[i], BR[i + 1], Hm, X)
                lhs = Sym()
                for idx in np.ndindex(*shape):
                    lhs = lhs + cj(Y[idx]) * S(HX[idx])
                d = task['d']
                # Psi(X): two-site tensor X[(s,t), a, b] placed at sites i, i+1
                def dense_two(T):
                    out = []
                    for phys in itertools.product(range(d), repeat=L):
                        Mx = None
                        k = 0
                        while k < L:
                            if k == i:
                                blk = T[phys[i] * d + phys[i + 1]]; k += 2
                            else:
                                blk = psi.A[k][phys[k]]; k += 1
                            Mx = blk if Mx is None else Mx.dot(blk)
                        out.append(Mx[0, 0])
                    return out
                pairs.append((lhs, braket(dense_two(Y), M, dense_two(X))))
            else:
                eng.mark('local_zero_site')
                BL = left_blocks(psi, H, i + 1)
                Dm = psi.A[i].shape[2]
                C = eng.sym_array('C', (Dm, Dm), cplx=task['cplx']); Cp = eng.sym_array('Cp', (Dm, Dm), cplx=task['cplx'])
                inputs.update(X=C, Y=Cp)
                KC = OP.apply_local_bond_contraction(BL[i + 1], BR[i], C)
                lhs = Sym()
                for idx in np.ndindex(Dm, Dm):
                    lhs = lhs + cj(Cp[idx]) * S(KC[idx])
                d = task['d']
                def dense_bond(Cm):
                    out = []
                    for phys in itertools.product(range(d), repeat=L):
                        Mx = None
                        for k in range(L):
                            blk = psi.A[k][phys[k]]
                            Mx = blk if Mx is None else Mx.dot(blk)
                            if k == i:
                                Mx = Mx.dot(Cm)
                        out.append(Mx[0, 0])
                    return out
                pairs.append((lhs, braket(dense_bond(Cp), M, dense_bond(C))))
            if not unchanged(snap):
                fails.append('an argument was modified')
        elif kind == 'mixed':
            (psi, chi, H), used = build(eng, task, ['A', 'B', 'W'], ['mps', 'mps', 'mpo'])
            if used[0] != used[1]:
                eng.mark('bra_ket_profiles_differ')
            eng.mark('mixed_environment')
            inputs.update(psi=tn.mps_json(psi), chi=tn.mps_json(chi), H=tn.mps_json(H))
            snap = snapshot(psi.A + chi.A + H.A)
            i = task['site']
            M = tn.dense_mat(H)
            BL = np.array([[[1]]], dtype=object)
            for k in range(i):
                BL = OP.contraction_operator_step_left(psi.A[k], chi.A[k], H.A[k], BL)
            BR = np.array([[[1]]], dtype=object)
            for k in reversed(range(i + 1, L)):
                BR = OP.contraction_operator_step_right(psi.A[k], chi.A[k], H.A[k], BR)
            X = eng.sym_array('X', psi.A[i].shape, cplx=task['cplx']); Y = eng.sym_array('Y', chi.A[i].shape, cplx=task['cplx'])
            inputs.update(X=X, Y=Y)
            HX = OP.apply_local_hamiltonian(BL, BR, H.A[i], X)
            if HX.shape != Y.shape:
                fails.append(f'local operator maps to shape {HX.shape}, expected the bra tensor shape {Y.shape}')
            else:
                lhs = Sym()
                for idx in np.ndindex(*Y.shape):
                    lhs = lhs + cj(Y[idx]) * S(HX[idx])
                AX = list(psi.A); AX[i] = X
                AY = list(chi.A); AY[i] = Y
                pairs.append((lhs, braket(DN.dense_mps(AY), M, DN.dense_mps(AX))))
            if not unchanged(snap):
                fails.append('an argument was modified')
        elif kind == 'steps':
            # the elementary transfer steps satisfy their defining contraction (left/right consistency of vdot)
            (psi, chi), used = build(eng, task, ['A', 'B'], ['mps', 'mps'])
            inputs.update(psi=tn.mps_json(psi), chi=tn.mps_json(chi))
            T = np.array([[1]], dtype=object)
            for k in range(L):
                T = OP.contraction_step_left(psi.A[k], chi.A[k], T)
            pairs.append((T[0, 0], OP.vdot(chi, psi)))
            A_, B_ = psi.A[-1], chi.A[-1]
            Rm = eng.sym_array('R', (A_.shape[2], B_.shape[2]), cplx=True)
            Rn = OP.contraction_step_right(A_, B_, Rm)
            for a in range(A_.shape[1]):
                for b in range(B_.shape[1]):
                    tot = Sym()
                    for s in range(A_.shape[0]):
                        for c in range(A_.shape[2]):
                            for e in range(B_.shape[2]):
                                tot = tot + S(A_[s, a, c]) * S(Rm[c, e]) * cj(B_[s, b, e])
                    pairs.append((Rn[a, b], tot))
        else:
            raise runner.HarnessError(kind)
    except DeadPath:
        raise
    except Exception as e:
        reraise_internal(e)
        import traceback
        tb = traceback.extract_tb(e.__traceback__)[-1]
        candidate(eng, acc, task, 'operation', f'operation:{kind}:raises:{type(e).__name__}@{tb.name}', repr(e), inputs)
        return
    if pairs and prover.prove(eng, pairs=pairs, rounds=0, acc=acc, label='vc_dense') != 'proved':
        fails.append(f'{kind}: result differs from the dense quantity')
    acc.inc('nontrivial_paths')
    if acc.get('#samples') < 3 and L >= 2:
        acc.add('samples', sample(eng, task, dict(n_pairs=len(pairs), lhs_terms=S(pairs[0][0]).nterms() if pairs else 0)))
    if fails:
        candidate(eng, acc, task, 'operation', f'operation:{kind}:' + fails[0][:40], '; '.join(fails), inputs)


def validate(seed, tier):
    rng = np.random.default_rng(seed)
    n = 0
    # longer chains than the symbolic bound (L = 4..8), scalar-valued functions only: sampling on the real code
    for L in (4, 5, 6, 7, 8):
        runner.concrete_check('operation', dict(concrete.random_operation_input(rng, L, zero_q=True), kind='scalars', site=0))
        runner.concrete_check('operation', dict(concrete.random_operation_input(rng, L), kind='scalars', site=0))
        n += 2
    for L in (1, 2, 3):
        inp = concrete.random_operation_input(rng, L)
        for kind in ('scalars', 'local1', 'local2', 'local0'):
            if kind in ('local2', 'local0') and L == 1:
                continue
            inp2 = dict(inp, kind=kind, site=0)
            runner.concrete_check('operation', inp2)
            n += 1
            if kind != 'scalars':
                # dtype mix (erased by the symbolic encoding): real local tensors against complex environment blocks
                runner.concrete_check('operation', dict(inp2, real_xy=True))
                n += 1
    return dict(concrete_inputs_checked=n)


def evidence(tier, seed, total, per_task, val):
    ts = tasks(tier, seed)
    return dict(
        level='other',
        coverage=dict(
            explanation='bounded symbolic execution of pytenet.operation on dtype=object tensors with complex polynomial entries; every '
                        'returned scalar / environment-projected matrix element is compared with the dense quantity (explicit-loop '
                        'oracle); both sides are handed separately to z3 (QF_LRA over monomials), which decides the identities for all '
                        'entry values; norm() through the sqrt contract (w >= 0, w^2 = <psi|psi>)',
            functions_encoded=['vdot', 'norm', 'operator_average', 'operator_inner_product', 'operator_density_average',
                               'contraction_step_right', 'contraction_step_left', 'contraction_operator_step_right',
                               'contraction_operator_step_left', 'contraction_operator_density_step_right',
                               'compute_right_operator_blocks', 'apply_local_hamiltonian', 'apply_local_bond_contraction',
                               'merge_mps_tensor_pair', 'merge_mpo_tensor_pair'],
            bounds=dict(L='1..3', d=2, D_state='<= 2, all profiles, bra and ket independent', D_operator='<= 2, all profiles',
                        sites='every site / neighbouring pair / bond', complex_entries='L <= 2 (L = 3 exhausts memory); real entries L <= 3'),
            stubs=['sqrt contract in norm()'],
            distinct_nontrivial=int(total.get('nontrivial_paths')),
            rule='one case = (quantity, L, site, bond profiles); entries are universally quantified, hence every block-sparse instance '
                 'and every quantum-number assignment is covered (operation.py never reads quantum numbers)',
            obligations=int(total.get('vc_goals')),
            vc_results={k: int(v) for k, v in total.c.items() if k.startswith('vc_') and k.split('_')[-1] in ('proved', 'trivial', 'unknown', 'unproved')},
            samples=total.l.get('samples', []),
            exhaustive=False,
        ),
        assumptions=IDEALISATIONS + ['Hermiticity premise imposed structurally: MPO tensors Hermitian in the physical indices for every bond '
                                    'index pair (sufficient for a Hermitian dense operator; the general premise is non-linear and outside)'],
    )


if __name__ == '__main__':
    runner.main('harness.c04')
