"""
harness.common -- helpers shared by the per-property harnesses.
"""
import functools
import os
import numpy as np

from symx import shims
from symx.poly import Sym, Atom, S, R, VARS, pstr
from symx.engine import Acc
from symx import prover, concretize

shims.install()


def qsum(qnums):
    return functools.reduce(np.add.outer, qnums)


def sparse_tensor(eng, name, shape, qnums, cplx=False):
    """
    arbitrary block-sparse tensor: entry symbolic iff the charges sum to zero; the zero/non-zero layout is
    decided by *branching* on the symbolic charges, so every sparsity layout is a path.
    """
    T = shims.objzeros(shape)
    mask = qsum(qnums) if qnums else np.zeros(shape, dtype=int)
    for idx in np.ndindex(*shape):
        if mask[idx] == 0:
            nm = name + '_' + '_'.join(map(str, idx))
            T[idx] = eng.csym(nm) if cplx else eng.sym(nm)
    return T


def snapshot(arrs):
    """identity snapshot of object arrays (scalars are immutable, so identity == bit-for-bit equality)"""
    return [(a, a.shape, [x for x in a.reshape(-1)]) for a in arrs]


def unchanged(snap):
    for a, shape, elems in snap:
        if a.shape != shape:
            return False
        flat = a.reshape(-1)
        for x, y in zip(flat, elems):
            if x is not y:
                if isinstance(x, Sym) or isinstance(y, Sym):
                    return False
                if x != y:
                    return False
    return True


def is_structural_zero(x):
    if isinstance(x, Sym):
        return x.is_zero()
    return x == 0


MAX_CANDIDATES_PER_JOB = 4


def candidate(eng, acc, task, kind, sig, detail, inputs, seed=0, n=8):
    """record a violation candidate with concrete instantiations of the symbolic inputs"""
    envs = concretize.instantiate(eng, seed=seed, n=n)
    insts = [concretize.evaluate(inputs, env) for env in envs]
    acc.add('candidates', dict(task=task.get('name'), kind=kind, sig=sig, detail=str(detail)[:400],
                               decisions=[e[0] for e in eng.prefix][:80], insts=insts))
    if acc.get('#candidates') >= MAX_CANDIDATES_PER_JOB:
        from symx.engine import StopExploration
        raise StopExploration()


def sparsity_vcs(eng, acc, T, qnums, what):
    """
    every entry of T that is not structurally zero must have zero charge sum on this path (decided in LIA),
    or be provably zero modulo the hypotheses.  Returns list of failure descriptions.
    """
    fails = []
    mask = qsum(qnums)
    pend_int = []
    for idx in np.ndindex(*T.shape):
        if is_structural_zero(T[idx]):
            continue
        c = mask[idx]
        a = (S(c) == 0)
        if a.is_const():
            if a.const_value():
                continue
            pend_int.append((idx, a))
        else:
            pend_int.append((idx, a))
    if not pend_int:
        acc.inc('vc_sparsity_trivial')
        return fails
    # one LIA query for the conjunction; fall back to per-entry diagnosis only on failure
    if prover.prove_int(eng, [a for _, a in pend_int], acc) == 'proved':
        return fails
    for idx, a in pend_int:
        if prover.prove_int(eng, [a], acc) != 'proved':
            if prover.prove_escalating(eng, [T[idx]], rounds=(2, 3), acc=acc, label='vc_sparsezero', max_products=20000) != 'proved':
                fails.append(f'{what}{list(idx)} may be non-zero although its charges do not cancel')
    return fails


def sample(eng, task, extra=None):
    d = dict(task=task.get('name'), decisions=''.join(str(e[0]) for e in eng.prefix)[:120],
             path_condition=[repr(a) for a in eng.atoms[:12]])
    if extra:
        d.update(extra)
    return d


IDEALISATIONS = [
    'floating point is modelled by exact real/complex arithmetic; rounding and thresholds crossed by rounding are outside the claim',
    'charges are mathematical integers (NumPy stores int64); claim valid while sums stay below 2^63',
    'dtype=object arrays erase dtype promotion/casting rules',
    'shapes beyond the stated bounds are outside the claim',
]


def reraise_internal(e):
    """exceptions of the engine / harness itself must not be mistaken for failures of the code under test"""
    from symx.poly import SymUnsupported, SymDivisionByZero
    from symx.runner import HarnessError
    if isinstance(e, (SymUnsupported, HarnessError)) and not isinstance(e, SymDivisionByZero):
        raise e
