"""
C01  Orthonormalization never changes the represented state or operator.

MPS.orthonormalize / MPO.orthonormalize (and the local QR helpers, bond_ops.qr) run unmodified on an arbitrary
block-sparse object: all quantum numbers symbolic integers (every sparsity layout, sorted/unsorted/disjoint
pattern is a path), all entries symbolic.  np.linalg.qr is the contract stub, so the VCs
    factor >= 0,  factor * dense(new) = dense(old),  isometry of every site tensor,  block sparsity under the new
    bond quantum numbers,  bond-dimension bounds,  boundary charges unchanged (non-dummy paths)
are identities *modulo the QR contract*, decided by linearised ideal membership (z3 QF_LRA).
"""
import itertools
import numpy as np

from harness.common import *
from harness import concrete, tn
from refs import dense as DN
from symx import shims, prover, runner
from symx.engine import DeadPath, run_concrete
from symx.poly import Sym, S, Atom
import pytenet as ptn

PID = 'C01'


def tasks(tier, seed):
    ts = []
    q = tier == 'quick'

    def add(cls, mode, d, D, qmode, cplx=False, cut=6, extra=''):
        ts.append(dict(name=f'{cls}_{mode}_d{d}_D{"".join(map(str, D))}_{qmode}{"_c" if cplx else ""}{extra}', cls=cls, mode=mode, d=d, D=D,
                       qmode=qmode, cplx=cplx, cut=cut))
    for mode in ('left', 'right'):
        # L = 1
        add('mps', mode, 1, (1, 1), 'sym'); add('mps', mode, 2, (1, 1), 'sym'); add('mpo', mode, 2, (1, 1), 'sym')
        if not q:
            add('mps', mode, 3, (1, 1), 'sym')
        # L = 2, all charges symbolic
        add('mps', mode, 1, (1, 1, 1), 'sym'); add('mps', mode, 1, (1, 2, 1), 'sym')      # over-complete bond for d = 1
        add('mps', mode, 2, (1, 1, 1), 'sym'); add('mps', mode, 2, (1, 2, 1), 'sym', cut=8)
        add('mpo', mode, 2, (1, 1, 1), 'sym', cut=8)
        add('mps', mode, 2, (1, 3, 1), 'zero')                                                 # over-complete (3 > d * 1)
        if not q:
            add('mps', mode, 2, (1, 3, 1), 'sym', cut=9); add('mpo', mode, 2, (1, 2, 1), 'alpha2', cut=9)
            add('mps', mode, 3, (1, 2, 1), 'alpha2', cut=8)
            add('mps', mode, 2, (1, 2, 1), 'sym', cplx=True, cut=8)
        # L = 3
        add('mps', mode, 2, (1, 2, 2, 1), 'zero'); add('mps', mode, 2, (1, 1, 1, 1), 'sym', cut=8)
        add('mpo', mode, 2, (1, 1, 1, 1), 'zero')
        add('mps', mode, 1, (1, 2, 2, 1), 'sym', cut=8)
        if not q:
            add('mps', mode, 2, (1, 2, 2, 1), 'alpha2', cut=10); add('mps', mode, 2, (1, 2, 1, 1), 'sym', cut=10)
            add('mps', mode, 2, (1, 1, 2, 1), 'sym', cut=10)
            add('mps', mode, 2, (1, 2, 1, 1), 'zero', cplx=True); add('mps', mode, 2, (1, 1, 1, 1), 'sym', cplx=True, cut=8)
        else:
            add('mps', mode, 2, (1, 2, 1, 1), 'alpha2', cut=8)
    return ts


def required_marks(tier):
    return ['sign_flip', 'no_sign_flip', 'dummy_bond', 'bond_dim_reduced', 'sparse_layout_nontrivial', 'zero_state',
            'L1', 'mpo_class', 'overcomplete_bond']


def make_charges(eng, task):
    d, Dims, qm = task['d'], task['D'], task['qmode']
    if qm == 'zero':
        return np.zeros(d, dtype=int), [np.zeros(n, dtype=int) for n in Dims]
    if qm == 'sym':
        return eng.sym_array('qd', (d,), 'int'), [eng.sym_array(f'qD{i}', (n,), 'int') for i, n in enumerate(Dims)]
    # symbolic two-letter alphabet: every bond index picks one of two unknown integers (stated reduction)
    qd = eng.sym_array('qd', (d,), 'int')
    al = [eng.sym('alpha', 'int'), eng.sym('beta', 'int')]
    qD = []
    for i, n in enumerate(Dims):
        v = np.empty(n, dtype=object)
        for k in range(n):
            v[k] = al[eng.choose(2, f'letter{i}_{k}')]
        qD.append(v)
    return qd, qD


def iso_goals(T, kind, mode):
    s = T.shape
    if kind == 'mps':
        M = T.reshape((s[0] * s[1], s[2])) if mode == 'left' else T.transpose((0, 2, 1)).reshape((s[0] * s[2], s[1]))
    else:
        M = T.reshape((s[0] * s[1] * s[2], s[3])) if mode == 'left' else T.transpose((0, 1, 3, 2)).reshape((s[0] * s[1] * s[3], s[2]))
    G = M.conj().T.dot(M)
    return [S(G[a, b]) - (1 if a == b else 0) for a in range(G.shape[0]) for b in range(G.shape[1])]


def path(eng, acc, task):
    kind, mode, d, Dims = task['cls'], task['mode'], task['d'], task['D']
    L = len(Dims) - 1
    shims.reset_logs()
    qd, qD = make_charges(eng, task)
    x = (tn.sym_mps if kind == 'mps' else tn.sym_mpo)(eng, 'A', d, Dims, qd, qD, task['cplx'])
    inputs = dict(cls=kind, mode=mode, x=tn.mps_json(x))
    old_dense = tn.dense_vec(x) if kind == 'mps' else list(tn.dense_mat(x).reshape(-1))
    old_qD = [q.copy() for q in x.qD]
    old_dims = list(x.bond_dims)
    qd_snap = snapshot([x.qd])
    if L == 1:
        eng.mark('L1')
    if kind == 'mpo':
        eng.mark('mpo_class')
    pd = d if kind == 'mps' else d * d
    if any(Dims[i + 1] > pd * Dims[i] for i in range(L)) or any(Dims[i] > pd * Dims[i + 1] for i in range(L)):
        eng.mark('overcomplete_bond')
    if any(any(is_structural_zero(v) for v in a.reshape(-1)) and any(not is_structural_zero(v) for v in a.reshape(-1)) for a in x.A):
        eng.mark('sparse_layout_nontrivial')
    if all(is_structural_zero(v) for v in old_dense):
        eng.mark('zero_state')
    fails = []
    try:
        nrm = x.orthonormalize(mode=mode)
    except Exception as e:
        reraise_internal(e)
        import traceback
        tb = traceback.extract_tb(e.__traceback__)[-1]
        candidate(eng, acc, task, 'orthonormalize', f'orth:{kind}:{mode}:raises:{type(e).__name__}@{tb.name}', repr(e), inputs)
        return
    qr_calls = [s for s in shims.STUB_LOG if s[0] == 'qr']
    # the sign branch
    neg = [a for a in eng.atoms if a.op in ('<', '<=')]
    k = eng.known(S(nrm) >= 0)
    if k is not True:
        fails.append('returned factor may be negative')
    # which way did the sign branch go?  (the contract leaves the sign of R_ii free, so both are paths)
    nrm_s = S(nrm)
    if not nrm_s.is_const() and any(c < 0 for c in nrm_s.t.values()):
        eng.mark('sign_flip')
    elif not nrm_s.is_const():
        eng.mark('no_sign_flip')
    fails += tn.invariant_fails(x, kind, 'result')
    if not fails:
        new_dense = tn.dense_vec(x) if kind == 'mps' else list(tn.dense_mat(x).reshape(-1))
        goals = [nrm_s * S(b) - S(a) for a, b in zip(old_dense, new_dense)]
        if prover.prove_escalating(eng, goals, rounds=tuple(range(max(1, L - 1), L + 2)), acc=acc, label='vc_reconstruct') != 'proved':
            fails.append('factor * dense(new) = dense(old) not proved')
        ig = []
        for i in range(L):
            ig += iso_goals(x.A[i], kind, mode)
        if prover.prove_escalating(eng, ig, rounds=(1, 2), acc=acc, label='vc_isometry') != 'proved':
            fails.append('a site tensor is not an isometry in the sweep direction')
        fails += tn.sparsity_fails(eng, acc, x, kind, 'result')
        # bond dimension bounds
        nd = x.bond_dims
        if mode == 'left':
            for i in range(L):
                if nd[i + 1] > min(pd * nd[i], old_dims[i + 1]):
                    fails.append(f'bond {i + 1}: dimension {nd[i + 1]} exceeds min(d*D_left, old) = {min(pd * nd[i], old_dims[i + 1])}')
        else:
            for i in reversed(range(L)):
                if nd[i] > min(pd * nd[i + 1], old_dims[i]):
                    fails.append(f'bond {i}: dimension {nd[i]} exceeds min(d*D_right, old) = {min(pd * nd[i + 1], old_dims[i])}')
        if nd != old_dims:
            eng.mark('bond_dim_reduced')
        # boundary charges: unchanged on every path on which the last QR found a common charge
        last_dummy = False
        # the far boundary (never touched)
        far = 0 if mode == 'left' else L
        near = L if mode == 'left' else 0
        if not (x.qD[far] is old_qD[far] or all((S(a) == S(b)).is_const() and (S(a) == S(b)).const_value() for a, b in zip(x.qD[far], old_qD[far]))):
            fails.append('the boundary bond that the sweep starts from was changed')
        at = [S(a) == S(b) for a, b in zip(x.qD[near], old_qD[near])]
        if prover.prove_int(eng, at, acc) != 'proved':
            # allowed only when the state is zero (dummy bond): then the factor must be 0
            if nrm_s.is_zero() or eng.known(nrm_s == 0) is True:
                eng.mark('dummy_bond')
            else:
                fails.append('a boundary quantum number changed although the state may be non-zero')
        if len(qr_calls) < L:
            eng.mark('dummy_bond')
        if not unchanged(qd_snap):
            fails.append('qd was modified')
        if acc.get('canary_checked') < 2 and goals and any(g.t for g in goals):
            acc.inc('canary_checked')
            if not prover.canary(eng, next(g for g in goals if g.t), rounds=min(2, L), max_products=20000, timeout_ms=20000):
                fails.append('canary proved: hypotheses inconsistent (vacuous)')
    acc.inc('nontrivial_paths' if qr_calls else 'trivial_paths')
    if acc.get('#samples') < 3 and L >= 2 and qr_calls:
        acc.add('samples', sample(eng, task, dict(factor=repr(nrm), bond_dims=[old_dims, list(x.bond_dims)], qr_blocks=[c[1] for c in qr_calls])))
    if fails:
        candidate(eng, acc, task, 'orthonormalize', f'orth:{kind}:{mode}:' + fails[0][:40], '; '.join(fails), inputs)


def validate(seed, tier):
    rng = np.random.default_rng(seed)
    n = 0
    for cls in ('mps', 'mpo'):
        for mode in ('left', 'right'):
            for L in (1, 2, 3):
                inp = concrete.random_state_input(rng, cls, L)
                inp.update(mode=mode)
                runner.concrete_check('orthonormalize', inp)
                n += 1
                # dtype mechanics are erased by the symbolic encoding; this sweep pushes real and INTEGER valued tensors
                # (named in the property's quantifier) through the real code -- sampling, reported as such
                for kw in (dict(real=True), dict(integer=True), dict(integer=True, qrange=(0, 1))):
                    for _ in range(3):
                        inp = concrete.random_state_input(rng, cls, L, **kw)
                        inp.update(mode=mode)
                        runner.concrete_check('orthonormalize', inp)
                        n += 1
    # shimmed path against plain NumPy
    qd = np.array([0, 1]); qD = [np.array([0]), np.array([0, 1, 1]), np.array([1])]
    psi = ptn.MPS(qd, qD, fill='random', rng=rng)
    for a in psi.A:
        a[:] = a.real
    psi.A = [a.real.copy() for a in psi.A]
    ref = ptn.MPS(qd, qD, fill='postpone'); ref.A = [a.copy() for a in psi.A]
    n_ref = ref.orthonormalize('left')

    def shimmed(eng):
        y = ptn.MPS(qd.astype(object), [q.astype(object) for q in qD], fill='postpone')
        y.A = [shims.to_object(a) for a in psi.A]
        nr = y.orthonormalize('left')
        return float(S(nr).cval()), shims.to_numeric(np.array(DN.dense_mps(y.A), dtype=object))
    n_sh, v_sh = run_concrete(shimmed)
    if abs(n_sh - n_ref) > 1e-10 or not np.allclose(n_sh * v_sh, n_ref * ref.as_vector(), atol=1e-10):
        raise runner.HarnessError('shimmed orthonormalize disagrees with plain NumPy')
    return dict(concrete_inputs_checked=n, shim_vs_numpy='agree')


def evidence(tier, seed, total, per_task, val):
    ts = tasks(tier, seed)
    return dict(
        level='other',
        coverage=dict(
            explanation='bounded symbolic execution of the real orthonormalize sweeps (MPS and MPO, both modes) from an arbitrary '
                        'block-sparse object: charges symbolic integers (patterns decided by z3 QF_LIA), entries symbolic reals '
                        '(complex in the thorough tier); LAPACK QR replaced by its contract; VCs decided by z3 QF_LRA on linearised '
                        'ideal membership with goal-directed multipliers (up to L+1 rounds)',
            functions_encoded=['MPS.orthonormalize', 'MPO.orthonormalize', 'mps.local_orthonormalize_left_qr', 'mps.local_orthonormalize_right_qr',
                               'mpo.local_orthonormalize_left_qr', 'mpo.local_orthonormalize_right_qr', 'bond_ops.qr', 'qnumber.*'],
            bounds=dict(tasks=[(t['cls'], t['mode'], t['d'], t['D'], t['qmode'], t['cplx']) for t in ts],
                        note='(class, mode, d, bond profile, charge mode, complex); charge mode sym = every charge an unconstrained '
                             'symbolic integer; alpha2 = qd symbolic, every bond index picks one of two unknown integers; zero = all 0'),
            stubs=['np.linalg.qr contract (Q^H Q = I, QR = A, R upper triangular with real diagonal of free sign)'],
            outside=['factor^2 = sum |psi|^2 as a separate VC (follows from reconstruction + isometry by the textbook lemma)',
                     'dtype handling (integer fill, real->complex promotion), rounding, L > 3, D > 3'],
            distinct_nontrivial=int(total.get('nontrivial_paths')),
            rule='one case = one feasible path (shape task x charge pattern x sign of the trailing R entry); non-trivial = at least one QR stub call',
            obligations=int(total.get('vc_goals')),
            vc_results={k: int(v) for k, v in total.c.items() if k.startswith('vc_') and k.split('_')[-1] in ('proved', 'trivial', 'unknown', 'unproved', 'escalations')},
            samples=total.l.get('samples', []),
            exhaustive=False,
        ),
        assumptions=IDEALISATIONS + ['LAPACK QR satisfies its contract (validated numerically each run)'],
    )


if __name__ == '__main__':
    runner.main('harness.c01')
