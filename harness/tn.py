"""
harness.tn -- symbolic MPS / MPO builders and dense helpers shared by the tensor-network harnesses.
"""
import itertools
import numpy as np

from harness.common import *
from refs import dense as D
from symx import shims
from symx.poly import Sym, S
import pytenet as ptn


def charges(eng, tag, n, mode, fixed=None):
    """vector of n charges: mode 'zero' (concrete 0), 'sym' (symbolic ints), 'fixed' (given concrete list)"""
    if mode == 'zero':
        return np.zeros(n, dtype=int)
    if mode == 'fixed':
        return np.array(fixed, dtype=int)
    return eng.sym_array(tag, (n,), 'int')


def sym_mps(eng, tag, d, Dims, qd, qD, cplx=False):
    """arbitrary block-sparse MPS with symbolic entries (sparsity layout decided by branching on the charges)"""
    psi = ptn.MPS(qd, qD, fill='postpone')
    for i in range(len(Dims) - 1):
        psi.A[i] = sparse_tensor(eng, f'{tag}{i}', (d, Dims[i], Dims[i + 1]), [psi.qd, psi.qD[i], -psi.qD[i + 1]], cplx=cplx)
    return psi


def sym_mpo(eng, tag, d, Dims, qd, qD, cplx=False):
    op = ptn.MPO(qd, qD, fill='postpone')
    for i in range(len(Dims) - 1):
        op.A[i] = sparse_tensor(eng, f'{tag}{i}', (d, d, Dims[i], Dims[i + 1]), [op.qd, -op.qd, op.qD[i], -op.qD[i + 1]], cplx=cplx)
    return op


def mps_json(psi):
    return dict(qd=list(psi.qd), qD=[list(q) for q in psi.qD], A=[a for a in psi.A])


def mps_from_json(j, cls=None):
    cls = cls or ptn.MPS
    x = cls(np.array(j['qd'], dtype=int), [np.array(q, dtype=int) for q in j['qD']], fill='postpone')
    x.A = [np.array(a, dtype=complex) for a in j['A']]
    # real inputs stay real (dtype mechanics are outside the symbolic claim, but replays use the natural dtype)
    x.A = [a.real.copy() if np.all(a.imag == 0) else a for a in x.A]
    return x


def dense_vec(psi):
    return D.dense_mps(psi.A)


def dense_mat(op):
    return D.dense_mpo(op.A)


def matvec(M, v):
    n = len(v)
    out = []
    for r in range(M.shape[0]):
        tot = 0
        for c in range(n):
            x = M[r, c]
            if not isinstance(x, Sym) and x == 0:
                continue
            tot = tot + x * v[c]
        out.append(tot)
    return out


def matmat(A, B):
    n, k = A.shape
    m = B.shape[1]
    out = np.empty((n, m), dtype=object)
    for r in range(n):
        for c in range(m):
            tot = 0
            for l in range(k):
                x = A[r, l]; y = B[l, c]
                if (not isinstance(x, Sym) and x == 0) or (not isinstance(y, Sym) and y == 0):
                    continue
                tot = tot + x * y
            out[r, c] = tot
    return out


def invariant_fails(x, kind, what):
    """representation invariant I(x) of C02: arrays, lengths, block sparsity (structural or provable)"""
    fails = []
    if not isinstance(x.qd, np.ndarray):
        fails.append(f'{what}.qd is not a NumPy array')
    for i, q in enumerate(x.qD):
        if not isinstance(q, np.ndarray):
            fails.append(f'{what}.qD[{i}] is a {type(q).__name__}, not a NumPy array')
    L = len(x.A)
    if len(x.qD) != L + 1:
        fails.append(f'{what}: len(qD) = {len(x.qD)} != nsites + 1')
        return fails
    ax = (1, 2) if kind in ('mps', 'mps_open') else (2, 3)
    for i in range(L):
        if x.A[i].shape[ax[0]] != len(x.qD[i]) or x.A[i].shape[ax[1]] != len(x.qD[i + 1]):
            fails.append(f'{what}: bond dimensions of A[{i}] {x.A[i].shape} do not match len(qD) = {len(x.qD[i])}, {len(x.qD[i + 1])}')
        if x.A[i].shape[0] != len(x.qd) or (kind == 'mpo' and x.A[i].shape[1] != len(x.qd)):
            fails.append(f'{what}: physical dimension of A[{i}] does not match len(qd)')
    if kind == 'mps' and L > 0 and (len(x.qD[0]) != 1 or len(x.qD[-1]) != 1):
        fails.append(f'{what}: outer bond dimensions are not 1')
    return fails


def sparsity_fails(eng, acc, x, kind, what):
    fails = []
    for i in range(len(x.A)):
        q = [x.qd, x.qD[i], -np.asarray(x.qD[i + 1], dtype=object)] if kind in ('mps', 'mps_open') else \
            [x.qd, -np.asarray(x.qd, dtype=object), x.qD[i], -np.asarray(x.qD[i + 1], dtype=object)]
        q = [np.asarray(v, dtype=object) for v in q]
        fails += sparsity_vcs(eng, acc, x.A[i], q, f'{what}.A[{i}]')
    return fails
