"""
harness.concrete -- the properties evaluated numerically on the *real* code (plain NumPy / LAPACK, no shims).

Used (a) to replay every symbolic counterexample before it is reported, under /venv/bin/python, and
(b) by the harnesses for Serval-style validation of the encoding.  Each check returns a list of failure
strings (empty = property holds on this input).  Only numpy, scipy and pytenet are imported here.

usage: python -m harness.concrete <replay.json>      exit 1 = violation reproduced, 0 = property holds
"""
import copy
import itertools
import json
import sys
import warnings
import numpy as np

TOL = 1e-9
CHECKS = {}


def check(kind):
    def deco(f):
        CHECKS[kind] = f
        return f
    return deco


def decode(x):
    if isinstance(x, dict):
        if 'frac' in x:
            return x['frac'][0] / x['frac'][1]
        if 're' in x and 'im' in x and len(x) == 2:
            return complex(decode(x['re']), decode(x['im']))
        return {k: decode(v) for k, v in x.items()}
    if isinstance(x, list):
        return [decode(y) for y in x]
    return x


def arr(x, dtype=None):
    a = np.array(x)
    if dtype is not None:
        a = a.astype(dtype)
    elif a.dtype == object:
        a = a.astype(complex)
    return a


def close(a, b, scale=1.0):
    a = np.asarray(a); b = np.asarray(b)
    if a.shape != b.shape:
        return False
    return bool(np.all(np.abs(a - b) <= TOL * max(1.0, scale)))


def qsparse_fail(A, qnums, what):
    import functools
    mask = functools.reduce(np.add.outer, [np.asarray(q) for q in qnums])
    bad = np.abs(np.where(mask == 0, 0, A)) > TOL * max(1.0, float(np.max(np.abs(A))) if A.size else 1.0)
    if np.any(bad):
        return [f'{what}: non-zero entry at {tuple(int(i) for i in np.argwhere(bad)[0])} violates the quantum-number rule']
    return []


# ------------------------------------------------------------------------------------------- C11

@check('qr')
def check_qr(inp):
    from pytenet.bond_ops import qr
    A = arr(inp['A']); q0 = np.array(inp['q0'], dtype=int); q1 = np.array(inp['q1'], dtype=int)
    if not np.iscomplexobj(arr(inp['A'])) or np.all(A.imag == 0):
        A = A.real.astype(float)
    m, n = A.shape
    A0 = A.copy()
    fails = []
    try:
        Q, R, qi = qr(A, q0, q1)
    except Exception as e:
        return [f'qr raised {type(e).__name__}: {e}']
    k = len(qi)
    sc = float(np.max(np.abs(A0))) if A0.size else 1.0
    if Q.shape != (m, k) or R.shape != (k, n):
        fails.append(f'shape mismatch Q{Q.shape} R{R.shape} len(qinterm)={k}')
        return fails
    if not 1 <= k <= min(m, n):
        fails.append(f'intermediate dimension {k} not in [1, min(m, n) = {min(m, n)}]')
    if not close(Q @ R, A0, sc):
        fails.append('Q @ R != A')
    if not close(Q.conj().T @ Q, np.identity(k)):
        fails.append('Q does not have orthonormal columns')
    fails += qsparse_fail(Q, [q0, -np.asarray(qi)], 'Q')
    fails += qsparse_fail(R, [np.asarray(qi), -q1], 'R')
    if not np.array_equal(A, A0):
        fails.append('input matrix was modified')
    if len(np.intersect1d(q0, q1)) == 0 and (k != 1 or np.any(Q @ R != 0)):
        fails.append('disjoint charges: expected intermediate dimension 1 and zero product')
    return fails



# ------------------------------------------------------------------------------------------- C18

@check('bipartite')
def check_bipartite(inp):
    import signal
    from pytenet.bipartite_graph import BipartiteGraph, HopcroftKarp, minimum_vertex_cover
    nu, nv = inp['nu'], inp['nv']
    edges = [tuple(e) for e in inp['edges']]

    def _alarm(signum, frame):
        raise TimeoutError()
    signal.signal(signal.SIGALRM, _alarm)
    signal.setitimer(signal.ITIMER_REAL, 30.0)
    try:
        g = BipartiteGraph(nu, nv, edges)
        matching = HopcroftKarp(g)()
        ucov, vcov = minimum_vertex_cover(g)
    except TimeoutError:
        return ['did not terminate within 30 s']
    except Exception as e:
        return [f'raised {type(e).__name__}: {e}']
    finally:
        signal.setitimer(signal.ITIMER_REAL, 0)
    fails = []
    es = set(edges)
    if any(e not in es for e in matching):
        fails.append('matching contains a non-edge')
    if len({u for u, _ in matching}) != len(matching) or len({v for _, v in matching}) != len(matching):
        fails.append('matching edges share a vertex')
    if any(not (0 <= u < nu) for u in ucov) or any(not (0 <= v < nv) for v in vcov):
        fails.append('cover vertex out of range')
    if any(u not in ucov and v not in vcov for u, v in es):
        fails.append('cover misses an edge')
    # independent optimum by brute force over vertex subsets (small graphs only)
    if nu + nv <= 12:
        best = None
        verts = [('u', u) for u in range(nu)] + [('v', v) for v in range(nv)]
        for r in range(len(verts) + 1):
            for sub in itertools.combinations(verts, r):
                ss = set(sub)
                if all(('u', u) in ss or ('v', v) in ss for u, v in es):
                    best = r; break
            if best is not None:
                break
        if len(ucov) + len(vcov) != best:
            fails.append(f'cover size {len(ucov) + len(vcov)} != minimum vertex cover size {best}')
        if len(matching) != best:
            fails.append(f'matching size {len(matching)} != maximum matching size {best} (Koenig)')
    elif len(ucov) + len(vcov) != len(matching):
        fails.append('|cover| != |matching|')
    return fails


# ------------------------------------------------------------------------------------------- C05 / C20

def _words_close(a, b):
    fails = []
    for w in set(a) | set(b):
        x, y = a.get(w, 0), b.get(w, 0)
        if abs(x - y) > TOL * max(1.0, abs(x), abs(y)):
            fails.append(f'word {w}: coefficient {x} != reference {y}')
    return fails


def _check_opchains(inp, opmap, qd):
    from pytenet.opchain import OpChain
    from pytenet.opgraph import OpGraph
    from pytenet.mpo import MPO
    from refs import words as W
    L = inp['L']
    chains = [OpChain(c['oids'], c['qnums'], c['coeff'], c['istart']) for c in inp['chains']]
    if all(c.coeff == 0 for c in chains):
        return []
    ref = W.chains_words(chains, L, 0)
    try:
        g = OpGraph.from_opchains(chains, L, 0)
    except Exception as e:
        return [f'from_opchains raised {type(e).__name__}: {e}']
    fails = []
    if not g.is_consistent():
        fails.append('graph inconsistent')
    if g.length != L:
        fails.append(f'graph length {g.length} != {L}')
    try:
        got = W.graph_words(g)
    except Exception as e:
        return fails + [f'graph walk failed: {e}']
    fails += _words_close(got, ref)
    nnz = sum(1 for c in chains if c.coeff != 0)
    widths = W.layer_widths(g)
    if any(w > max(nnz, 1) for w in widths):
        fails.append(f'C20: layer widths {widths} exceed number of non-zero chains {nnz}')
    if opmap is not None:
        try:
            mpo = MPO.from_opgraph(qd, g, opmap, compute_nid_map=True)
            M = mpo.as_matrix()
        except Exception as e:
            return fails + [f'from_opgraph raised {type(e).__name__}: {e}']
        ref_m = W.words_matrix(ref, opmap, len(qd)).astype(complex)
        if not close(M, ref_m, float(np.max(np.abs(ref_m)))):
            fails.append('MPO matrix differs from the sum of padded chains')
        for nid, (l, i) in mpo.nid_map.items():
            if mpo.qD[l][i] != g.nodes[nid].qnum:
                fails.append(f'qD[{l}][{i}] != qnum of node {nid}')
        if mpo.bond_dims != widths:
            fails.append('bond dims differ from layer widths')
    return fails


@check('opchains')
def check_opchains(inp):
    rng = np.random.default_rng(7)
    zeroq = all(all(q == 0 for q in c['qnums']) for c in inp['chains'])
    opmap = {i: rng.standard_normal((2, 2)) for i in range(3)} if zeroq else None
    return _check_opchains(inp, opmap, [0, 0])


@check('opchains_mpo')
def check_opchains_mpo(inp):
    rng = np.random.default_rng(7)
    g = inp['g']
    opmap = {0: np.diag(rng.standard_normal(2)), 1: np.array([[0, 0], [rng.standard_normal(), 0]]),
             2: np.array([[0, rng.standard_normal()], [0, 0]])}
    return _check_opchains(inp, opmap, [0, g])


# ------------------------------------------------------------------------------------------- C06

def _num(M):
    out = np.empty(M.shape, dtype=complex)
    for idx in np.ndindex(*M.shape):
        x = M[idx]
        out[idx] = complex(x.cval()) if hasattr(x, 'cval') else complex(x)
    return out


@check('lattice_model')
def check_lattice_model(inp):
    import pytenet as ptn
    from refs import models as Mo
    model, L, d, p = inp['model'], inp['L'], inp['d'], inp['params']
    try:
        if model == 'ising':
            mpo = ptn.ising_mpo(L, *p); ref = Mo.ising(L, *p)
        elif model == 'heisenberg_xxz':
            mpo = ptn.heisenberg_xxz_mpo(L, *p); ref = Mo.heisenberg_xxz(L, *p)
        elif model == 'heisenberg_xxz_spin1':
            mpo = ptn.heisenberg_xxz_spin1_mpo(L, *p); ref = Mo.heisenberg_xxz_spin1(L, *p)
        elif model == 'bose_hubbard':
            mpo = ptn.bose_hubbard_mpo(d, L, *p); ref = Mo.bose_hubbard(d, L, *p)
        elif model == 'fermi_hubbard':
            mpo = ptn.fermi_hubbard_mpo(L, *p); ref = Mo.fermi_hubbard(L, *p)
        elif model == 'linear_fermionic':
            mpo = ptn.linear_fermionic_mpo(p, inp['ftype']); ref = Mo.linear_fermionic(p, inp['ftype'])
        else:
            return [f'unknown model {model}']
        M = mpo.as_matrix()
    except Exception as e:
        if model != 'linear_fermionic' and not np.any(_num(ref)):
            return []      # the identically-zero operator is excluded by the property
        return [f'{model} raised {type(e).__name__}: {e}']
    ref = _num(ref)
    fails = []
    sc = float(np.max(np.abs(ref))) if ref.size else 1.0
    if not close(M, ref, sc):
        fails.append(f'{model}(L={L}, params={p}): dense matrix differs from the textbook definition')
    if model != 'linear_fermionic' and not close(M, M.conj().T, sc):
        fails.append('not Hermitian')
    phys = Mo.phys_qnums(model, d)
    qd = [int(x) for x in mpo.qd]
    for s_, t_ in itertools.product(range(len(qd)), repeat=2):
        if (qd[s_] == qd[t_]) != (phys[s_] == phys[t_]):
            fails.append(f'qd={qd} does not label the conserved quantity')
            break
    for i, A in enumerate(mpo.A):
        fails += qsparse_fail(A, [mpo.qd, -mpo.qd, mpo.qD[i], -mpo.qD[i + 1]], f'A[{i}]')
    return fails


# ------------------------------------------------------------------------------------------- C16

def _graph_from_json(j):
    from pytenet.opgraph import OpGraph, OpGraphNode, OpGraphEdge
    nodes = [OpGraphNode(n['nid'], n['eids_in'], n['eids_out'], n['qnum']) for n in j['nodes']]
    edges = [OpGraphEdge(e['eid'], e['nids'], [(o, c) for o, c in e['opics']]) for e in j['edges']]
    return OpGraph(nodes, edges, j['nid_terminal'])


def _graph_dump(g):
    return (sorted((k, n.nid, tuple(n.eids[0]), tuple(n.eids[1]), n.qnum) for k, n in g.nodes.items()),
            sorted((k, e.eid, tuple(e.nids), tuple(e.opics)) for k, e in g.edges.items()), tuple(g.nid_terminal))


@check('graph_rewrite')
def check_graph_rewrite(inp):
    from refs import words as W
    op = inp['op']
    g = _graph_from_json(inp['graph'])
    if not g.is_consistent():
        return []       # not a valid input
    w0 = W.graph_words(g)
    n0, e0 = len(g.nodes), len(g.edges)
    widths0 = W.layer_widths(g)
    ref = w0
    fails = []
    try:
        if op == 'simplify':
            g.simplify()
        elif op == 'seq2':
            g.simplify(); g.flip(); g.simplify(); g.flip()
        elif op == 'flip':
            g.flip(); ref = {tuple(reversed(w)): c for w, c in w0.items()}
        elif op == 'merge':
            g.merge_edges(inp['eid1'], inp['eid2'], inp['direction'])
        elif op == 'rename_node':
            g.rename_node_id(inp['cur'], inp['new'])
            if inp['new'] not in g.nodes:
                fails.append('renamed node missing')
        elif op == 'rename_edge':
            g.rename_edge_id(inp['cur'], inp['new'])
            if inp['new'] not in g.edges:
                fails.append('renamed edge missing')
        elif op == 'add':
            other = _graph_from_json(inp['other'])
            if not other.is_consistent():
                return []
            wh = W.graph_words(other)
            before = _graph_dump(other)
            g.add(other)
            ref = dict(w0)
            for w, c in wh.items():
                W.wadd(ref, w, c)
            if _graph_dump(other) != before:
                fails.append('add() modified the other graph')
            # later mutation of the result must not reach the other graph
            for n in g.nodes.values():
                n.eids[0].append(-12345); n.eids[1].append(-12345)
            if _graph_dump(other) != before:
                fails.append('result of add() shares edge-id lists with the other graph')
            for n in g.nodes.values():
                n.eids[0].remove(-12345); n.eids[1].remove(-12345)
    except AssertionError as e:
        if op == 'merge':
            return []   # precondition of merge_edges not met for the concrete values
        return [f'{op} raised AssertionError: {e}']
    except Exception as e:
        return [f'{op} raised {type(e).__name__}: {e}']
    if not g.is_consistent():
        fails.append(f'graph inconsistent after {op}')
    try:
        w1 = W.graph_words(g)
    except Exception as e:
        return fails + [f'graph walk failed after {op}: {e}']
    fails += _words_close(w1, ref)
    if op in ('simplify', 'seq2', 'merge'):
        if len(g.nodes) > n0 or len(g.edges) > e0:
            fails.append('number of nodes/edges increased')
        wa = W.layer_widths(g)
        if len(wa) != len(widths0) or any(a > b for a, b in zip(wa, widths0)):
            fails.append(f'layer width increased {widths0} -> {wa}')
    return fails


# ------------------------------------------------------------------------------------------- C17

def _tree_from_json(j):
    from pytenet.optree import OpTreeNode, OpTreeEdge
    return OpTreeNode([OpTreeEdge(c['oid'], c['coeff'], _tree_from_json(c['node'])) for c in j['children']], j['qnum'])


def _graph_checks(g, ref, L):
    from refs import words as W
    fails = []
    if not g.is_consistent():
        fails.append('graph not consistent')
    try:
        if g.length != L:
            fails.append(f'graph length {g.length} != {L}')
        got = W.graph_words(g)
    except Exception as e:
        return fails + [f'graph walk failed: {type(e).__name__}: {e}']
    if any(len(w) != L for w in got):
        fails.append('path of wrong length')
    fails += _words_close(got, ref)
    return fails


@check('optrees')
def check_optrees(inp):
    from pytenet.optree import OpTree
    from pytenet.opgraph import OpGraph
    from refs import words as W
    L = inp['L']
    trees = [OpTree(_tree_from_json(t['root']), t['istart']) for t in inp['trees']]
    ref = W.trees_words(trees, L, 0)
    try:
        g = OpGraph.from_optrees(trees, L, 0)
    except Exception as e:
        return [f'from_optrees raised {type(e).__name__}: {e}']
    return _graph_checks(g, ref, L)


@check('automaton')
def check_automaton(inp):
    from pytenet.autop import AutOp, AutOpNode, AutOpEdge
    from pytenet.opgraph import OpGraph
    from refs import words as W
    L, nn, term = inp['L'], inp['nn'], inp['term']
    ACT = {'true': lambda i: True, 'never': lambda i: False, 'first_only': lambda i: i == 0, 'not_first': lambda i: i != 0,
           'last_only': lambda i: i == L - 1}
    # reference DP
    cur = {term[0]: {(): 1}}
    for i in range(L):
        nxt = {}
        for e in inp['edges']:
            if e['a'] not in cur or not ACT[e['act']](i):
                continue
            for w, c in cur[e['a']].items():
                for oid, cc in e['opics'][i]:
                    W.wadd(nxt.setdefault(e['b'], {}), w + (int(oid),), c * cc)
        cur = nxt
    ref = cur.get(term[1], {})
    nodes = [AutOpNode(i, [], [], inp['qnums'][i]) for i in range(nn)]
    aut = AutOp(nodes, [], term)
    for eid, e in enumerate(inp['edges']):
        tbl = [[(o, c) for o, c in site] for site in e['opics']]
        opics = (lambda t: (lambda i: t[i]))(tbl) if e['site_dep'] else tbl[0]
        act = {'true': True, 'never': False}.get(e['act'], ACT[e['act']])
        aut.add_connect_edge(AutOpEdge(eid, [e['a'], e['b']], opics, act))
    try:
        g = OpGraph.from_automaton(aut, L)
    except Exception as e:
        if not ref:
            return []
        return [f'from_automaton raised {type(e).__name__}: {e}']
    if not ref:
        return ['no automaton path of this length, but a graph was returned']
    return _graph_checks(g, ref, L)


@check('dense_meaning')
def check_dense_meaning(inp):
    from refs import words as W
    from pytenet.opchain import OpChain
    from pytenet.optree import OpTree
    rng = np.random.default_rng(11)
    opmap = {0: rng.standard_normal((2, 2)), 1: rng.standard_normal((2, 2))}
    kind = inp['kind']
    try:
        if kind == 'dense_chain':
            M = OpChain(inp['oids'], [0] * (len(inp['oids']) + 1), inp['coeff'], 0).as_matrix(opmap)
            ref = W.words_matrix({tuple(inp['oids']): inp['coeff']}, opmap, 2)
        elif kind == 'dense_tree':
            root = _tree_from_json(inp['root'])
            tree = OpTree(root, 0)
            words = W.tree_words(root)
            h = max(len(w) for w in words)
            if tree.height() != h:
                return [f'height() = {tree.height()} != {h}']
            M = tree.as_matrix(opmap)
            om = dict(opmap); om['I'] = np.identity(2)
            padded = {}
            for w, c in words.items():
                W.wadd(padded, tuple(w) + ('I',) * (h - len(w)), c)
            ref = W.words_matrix(padded, om, 2)
        else:
            g = _graph_from_json(inp['graph'])
            M = g.as_matrix(opmap, inp['direction'])
            ref = W.words_matrix(W.graph_words(g), opmap, 2)
    except Exception as e:
        return [f'{kind}: as_matrix raised {type(e).__name__}: {e}']
    ref = np.array(ref, dtype=float)
    if not close(np.asarray(M, dtype=float), ref, float(np.max(np.abs(ref)))):
        return [f'{kind}: as_matrix differs from the word semantics']
    return []

# -------------------------------------------------------------------------------------------

def main():
    path = sys.argv[1]
    body = json.load(open(path))
    kind = body['kind']
    inputs = decode(body['inputs'])
    warnings.simplefilter('ignore')
    fails = CHECKS[kind](inputs)
    if fails:
        print(f'replay {path}: property {body.get("property")} violated on the real code ({kind}):')
        for f in fails[:10]:
            print('   ', f)
        sys.exit(1)
    print(f'replay {path}: property holds on this input ({kind})')
    sys.exit(0)


if __name__ == '__main__':
    main()
