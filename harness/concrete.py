"""
harness.concrete -- the properties evaluated numerically on the *real* code (plain NumPy / LAPACK, no shims).

Used (a) to replay every symbolic counterexample before it is reported, under /venv/bin/python, and
(b) by the harnesses for Serval-style validation of the encoding.  Each check returns a list of failure
strings (empty = property holds on this input).  Only numpy, scipy and pytenet are imported here.

usage: python -m harness.concrete <replay.json>      exit 1 = violation reproduced, 0 = property holds
"""
import copy
import itertools
import json
import sys
import warnings
import numpy as np

TOL = 1e-9
CHECKS = {}


def check(kind):
    def deco(f):
        CHECKS[kind] = f
        return f
    return deco


def decode(x):
    if isinstance(x, dict):
        if 'frac' in x:
            return x['frac'][0] / x['frac'][1]
        if 're' in x and 'im' in x and len(x) == 2:
            return complex(decode(x['re']), decode(x['im']))
        return {k: decode(v) for k, v in x.items()}
    if isinstance(x, list):
        return [decode(y) for y in x]
    return x


def arr(x, dtype=None):
    a = np.array(x)
    if dtype is not None:
        a = a.astype(dtype)
    elif a.dtype == object:
        a = a.astype(complex)
    return a


def close(a, b, scale=1.0):
    a = np.asarray(a); b = np.asarray(b)
    if a.shape != b.shape:
        return False
    return bool(np.all(np.abs(a - b) <= TOL * max(1.0, scale)))


def qsparse_fail(A, qnums, what):
    import functools
    mask = functools.reduce(np.add.outer, [np.asarray(q) for q in qnums])
    bad = np.abs(np.where(mask == 0, 0, A)) > TOL * max(1.0, float(np.max(np.abs(A))) if A.size else 1.0)
    if np.any(bad):
        return [f'{what}: non-zero entry at {tuple(int(i) for i in np.argwhere(bad)[0])} violates the quantum-number rule']
    return []


# ------------------------------------------------------------------------------------------- C11

@check('qr')
def check_qr(inp):
    from pytenet.bond_ops import qr
    A = arr(inp['A']); q0 = np.array(inp['q0'], dtype=int); q1 = np.array(inp['q1'], dtype=int)
    if not np.iscomplexobj(arr(inp['A'])) or np.all(A.imag == 0):
        A = A.real.astype(float)
    m, n = A.shape
    A0 = A.copy()
    fails = []
    try:
        Q, R, qi = qr(A, q0, q1)
    except Exception as e:
        return [f'qr raised {type(e).__name__}: {e}']
    k = len(qi)
    sc = float(np.max(np.abs(A0))) if A0.size else 1.0
    if Q.shape != (m, k) or R.shape != (k, n):
        fails.append(f'shape mismatch Q{Q.shape} R{R.shape} len(qinterm)={k}')
        return fails
    if not 1 <= k <= min(m, n):
        fails.append(f'intermediate dimension {k} not in [1, min(m, n) = {min(m, n)}]')
    if not close(Q @ R, A0, sc):
        fails.append('Q @ R != A')
    if not close(Q.conj().T @ Q, np.identity(k)):
        fails.append('Q does not have orthonormal columns')
    fails += qsparse_fail(Q, [q0, -np.asarray(qi)], 'Q')
    fails += qsparse_fail(R, [np.asarray(qi), -q1], 'R')
    if not np.array_equal(A, A0):
        fails.append('input matrix was modified')
    if len(np.intersect1d(q0, q1)) == 0 and (k != 1 or np.any(Q @ R != 0)):
        fails.append('disjoint charges: expected intermediate dimension 1 and zero product')
    return fails


# -------------------------------------------------------------------------------------------

def main():
    path = sys.argv[1]
    body = json.load(open(path))
    kind = body['kind']
    inputs = decode(body['inputs'])
    warnings.simplefilter('ignore')
    fails = CHECKS[kind](inputs)
    if fails:
        print(f'replay {path}: property {body.get("property")} violated on the real code ({kind}):')
        for f in fails[:10]:
            print('   ', f)
        sys.exit(1)
    print(f'replay {path}: property holds on this input ({kind})')
    sys.exit(0)


if __name__ == '__main__':
    main()
