"""
harness.concrete -- the properties evaluated numerically on the *real* code (plain NumPy / LAPACK, no shims).

Used (a) to replay every symbolic counterexample before it is reported, under /venv/bin/python, and
(b) by the harnesses for Serval-style validation of the encoding.  Each check returns a list of failure
strings (empty = property holds on this input).  Only numpy, scipy and pytenet are imported here.

usage: python -m harness.concrete <replay.json>      exit 1 = violation reproduced, 0 = property holds
"""
import copy
import itertools
import json
import sys
import warnings
import numpy as np

TOL = 1e-9
CHECKS = {}


def check(kind):
    def deco(f):
        CHECKS[kind] = f
        return f
    return deco


def decode(x):
    if isinstance(x, dict):
        if 'frac' in x:
            return x['frac'][0] / x['frac'][1]
        if 're' in x and 'im' in x and len(x) == 2:
            return complex(decode(x['re']), decode(x['im']))
        return {k: decode(v) for k, v in x.items()}
    if isinstance(x, list):
        return [decode(y) for y in x]
    return x


def arr(x, dtype=None):
    a = np.array(x)
    if dtype is not None:
        a = a.astype(dtype)
    elif a.dtype == object:
        a = a.astype(complex)
    return a


def close(a, b, scale=1.0):
    a = np.asarray(a); b = np.asarray(b)
    if a.shape != b.shape:
        return False
    return bool(np.all(np.abs(a - b) <= TOL * max(1.0, scale)))


def _exact_ints(q):
    """quantum numbers as exact Python integers (object array), so that charges beyond 2^53 are compared exactly even if the code
    under test handed them back in a floating-point array"""
    a = np.asarray(q)
    out = np.empty(a.shape, dtype=object)
    for idx in np.ndindex(*a.shape):
        v = a[idx]
        v = v.item() if hasattr(v, 'item') else v
        if isinstance(v, complex) and v.imag == 0:
            v = v.real
        if isinstance(v, float) and v.is_integer():
            v = int(v)
        out[idx] = v
    return out


def qsparse_fail(A, qnums, what):
    import functools
    mask = functools.reduce(np.add.outer, [_exact_ints(q) for q in qnums])
    mask = np.array(mask == 0, dtype=bool).reshape(np.shape(A)) if np.size(A) else np.zeros(np.shape(A), dtype=bool)
    mask = np.where(mask, 0, 1)
    bad = np.abs(np.where(mask == 0, 0, A)) > TOL * max(1.0, float(np.max(np.abs(A))) if A.size else 1.0)
    if np.any(bad):
        return [f'{what}: non-zero entry at {tuple(int(i) for i in np.argwhere(bad)[0])} violates the quantum-number rule']
    return []


# ------------------------------------------------------------------------------------------- C11

@check('qr')
def check_qr(inp):
    from pytenet.bond_ops import qr
    A = arr(inp['A']); q0 = np.array(inp['q0'], dtype=int); q1 = np.array(inp['q1'], dtype=int)
    if not np.iscomplexobj(arr(inp['A'])) or np.all(A.imag == 0):
        A = A.real.astype(float)
    m, n = A.shape
    A0 = A.copy()
    fails = []
    try:
        Q, R, qi = qr(A, q0, q1)
    except Exception as e:
        return [f'qr raised {type(e).__name__}: {e}']
    k = len(qi)
    sc = float(np.max(np.abs(A0))) if A0.size else 1.0
    if Q.shape != (m, k) or R.shape != (k, n):
        fails.append(f'shape mismatch Q{Q.shape} R{R.shape} len(qinterm)={k}')
        return fails
    if not 1 <= k <= min(m, n):
        fails.append(f'intermediate dimension {k} not in [1, min(m, n) = {min(m, n)}]')
    if not close(Q @ R, A0, sc):
        fails.append('Q @ R != A')
    if not close(Q.conj().T @ Q, np.identity(k)):
        fails.append('Q does not have orthonormal columns')
    fails += qsparse_fail(Q, [q0, -_exact_ints(qi)], 'Q')
    fails += qsparse_fail(R, [_exact_ints(qi), -q1], 'R')
    if not np.array_equal(A, A0):
        fails.append('input matrix was modified')
    if len(np.intersect1d(q0, q1)) == 0 and (k != 1 or np.any(Q @ R != 0)):
        fails.append('disjoint charges: expected intermediate dimension 1 and zero product')
    return fails



# ------------------------------------------------------------------------------------------- C18

@check('bipartite')
def check_bipartite(inp):
    import signal
    from pytenet.bipartite_graph import BipartiteGraph, HopcroftKarp, minimum_vertex_cover
    nu, nv = inp['nu'], inp['nv']
    edges = [tuple(e) for e in inp['edges']]

    def _alarm(signum, frame):
        raise TimeoutError()
    signal.signal(signal.SIGALRM, _alarm)
    signal.setitimer(signal.ITIMER_REAL, 30.0)
    try:
        g = BipartiteGraph(nu, nv, edges)
        matching = HopcroftKarp(g)()
        ucov, vcov = minimum_vertex_cover(g)
    except TimeoutError:
        return ['did not terminate within 30 s']
    except Exception as e:
        return [f'raised {type(e).__name__}: {e}']
    finally:
        signal.setitimer(signal.ITIMER_REAL, 0)
    fails = []
    es = set(edges)
    if any(e not in es for e in matching):
        fails.append('matching contains a non-edge')
    if len({u for u, _ in matching}) != len(matching) or len({v for _, v in matching}) != len(matching):
        fails.append('matching edges share a vertex')
    if any(not (0 <= u < nu) for u in ucov) or any(not (0 <= v < nv) for v in vcov):
        fails.append('cover vertex out of range')
    if any(u not in ucov and v not in vcov for u, v in es):
        fails.append('cover misses an edge')
    # independent optimum by brute force over vertex subsets (small graphs only)
    if nu + nv <= 12:
        best = None
        verts = [('u', u) for u in range(nu)] + [('v', v) for v in range(nv)]
        for r in range(len(verts) + 1):
            for sub in itertools.combinations(verts, r):
                ss = set(sub)
                if all(('u', u) in ss or ('v', v) in ss for u, v in es):
                    best = r; break
            if best is not None:
                break
        if len(ucov) + len(vcov) != best:
            fails.append(f'cover size {len(ucov) + len(vcov)} != minimum vertex cover size {best}')
        if len(matching) != best:
            fails.append(f'matching size {len(matching)} != maximum matching size {best} (Koenig)')
    elif len(ucov) + len(vcov) != len(matching):
        fails.append('|cover| != |matching|')
    return fails


# ------------------------------------------------------------------------------------------- C05 / C20

def _words_close(a, b):
    fails = []
    for w in set(a) | set(b):
        x, y = a.get(w, 0), b.get(w, 0)
        if abs(x - y) > TOL * max(1.0, abs(x), abs(y)):
            fails.append(f'word {w}: coefficient {x} != reference {y}')
    return fails


def _check_opchains(inp, opmap, qd):
    from pytenet.opchain import OpChain
    from pytenet.opgraph import OpGraph
    from pytenet.mpo import MPO
    from refs import words as W
    L = inp['L']
    chains = [OpChain(c['oids'], c['qnums'], c['coeff'], c['istart']) for c in inp['chains']]
    if all(c.coeff == 0 for c in chains):
        return []
    oid_ident = int(inp.get('oid_identity', 0))
    ref = W.chains_words(chains, L, oid_ident)
    try:
        g = OpGraph.from_opchains(chains, L, oid_ident)
    except Exception as e:
        return [f'from_opchains raised {type(e).__name__}: {e}']
    fails = []
    if not g.is_consistent():
        fails.append('graph inconsistent')
    if g.length != L:
        fails.append(f'graph length {g.length} != {L}')
    try:
        got = W.graph_words(g)
    except Exception as e:
        return fails + [f'graph walk failed: {e}']
    fails += _words_close(got, ref)
    widths = W.layer_widths(g)
    if opmap is not None:
        try:
            mpo = MPO.from_opgraph(qd, g, opmap, compute_nid_map=True)
            M = mpo.as_matrix()
        except Exception as e:
            return fails + [f'from_opgraph raised {type(e).__name__}: {e}']
        ref_m = W.words_matrix(ref, opmap, len(qd)).astype(complex)
        if not close(M, ref_m, float(np.max(np.abs(ref_m)))):
            fails.append('MPO matrix differs from the sum of padded chains')
        if set(mpo.nid_map.keys()) != set(g.nodes.keys()):
            fails.append('nid_map does not cover exactly the graph nodes')
        if len(set(mpo.nid_map.values())) != len(mpo.nid_map):
            fails.append('nid_map maps two nodes to the same bond index')
        for nid, (l, i) in mpo.nid_map.items():
            if not (0 <= l < len(mpo.qD) and 0 <= i < len(mpo.qD[l])):
                fails.append(f'nid_map[{nid}] = {(l, i)} out of range')
                continue
            if mpo.qD[l][i] != g.nodes[nid].qnum:
                fails.append(f'qD[{l}][{i}] != qnum of node {nid}')
        if mpo.bond_dims != widths:
            fails.append('bond dims differ from layer widths')
        try:
            mpo0 = MPO.from_opgraph(qd, g, opmap)
            if len(mpo0.A) != len(mpo.A) or any(a.shape != b.shape or not np.array_equal(a, b) for a, b in zip(mpo0.A, mpo.A)) \
                    or any(list(x) != list(y) for x, y in zip(mpo0.qD, mpo.qD)):
                fails.append('from_opgraph without compute_nid_map builds a different MPO than with it')
        except Exception as e:
            fails.append(f'from_opgraph (default arguments) raised {type(e).__name__}: {e}')
    return fails


@check('opchains')
def check_opchains(inp):
    rng = np.random.default_rng(7)
    zeroq = all(all(q == 0 for q in c['qnums']) for c in inp['chains'])
    opmap = {i: rng.standard_normal((2, 2)) for i in range(3)} if zeroq else None
    return _check_opchains(inp, opmap, [0, 0])


@check('opchains_mpo')
def check_opchains_mpo(inp):
    rng = np.random.default_rng(7)
    g = inp['g']
    opmap = {0: np.diag(rng.standard_normal(2)), 1: np.array([[0, 0], [rng.standard_normal(), 0]]),
             2: np.array([[0, rng.standard_normal()], [0, 0]])}
    return _check_opchains(inp, opmap, [0, g])


# ------------------------------------------------------------------------------------------- C06

def _num(M):
    out = np.empty(M.shape, dtype=complex)
    for idx in np.ndindex(*M.shape):
        x = M[idx]
        out[idx] = complex(x.cval()) if hasattr(x, 'cval') else complex(x)
    return out


@check('lattice_model')
def check_lattice_model(inp):
    import pytenet as ptn
    from refs import models as Mo
    model, L, d, p = inp['model'], inp['L'], inp['d'], inp['params']
    try:
        if model == 'ising':
            mpo = ptn.ising_mpo(L, *p); ref = Mo.ising(L, *p)
        elif model == 'heisenberg_xxz':
            mpo = ptn.heisenberg_xxz_mpo(L, *p); ref = Mo.heisenberg_xxz(L, *p)
        elif model == 'heisenberg_xxz_spin1':
            mpo = ptn.heisenberg_xxz_spin1_mpo(L, *p); ref = Mo.heisenberg_xxz_spin1(L, *p)
        elif model == 'bose_hubbard':
            mpo = ptn.bose_hubbard_mpo(d, L, *p); ref = Mo.bose_hubbard(d, L, *p)
        elif model == 'fermi_hubbard':
            mpo = ptn.fermi_hubbard_mpo(L, *p); ref = Mo.fermi_hubbard(L, *p)
        elif model == 'linear_fermionic':
            mpo = ptn.linear_fermionic_mpo(p, inp['ftype']); ref = Mo.linear_fermionic(p, inp['ftype'])
        else:
            return [f'unknown model {model}']
        M = mpo.as_matrix()
    except Exception as e:
        if model != 'linear_fermionic' and not np.any(_num(ref)):
            return []      # the identically-zero operator is excluded by the property
        return [f'{model} raised {type(e).__name__}: {e}']
    ref = _num(ref)
    fails = []
    sc = float(np.max(np.abs(ref))) if ref.size else 1.0
    if not close(M, ref, sc):
        fails.append(f'{model}(L={L}, params={p}): dense matrix differs from the textbook definition')
    if model != 'linear_fermionic' and not close(M, M.conj().T, sc):
        fails.append('not Hermitian')
    phys = Mo.phys_qnums(model, d)
    qd = [int(x) for x in mpo.qd]
    for s_, t_ in itertools.product(range(len(qd)), repeat=2):
        if (qd[s_] == qd[t_]) != (phys[s_] == phys[t_]):
            fails.append(f'qd={qd} does not label the conserved quantity')
            break
    for i, A in enumerate(mpo.A):
        fails += qsparse_fail(A, [mpo.qd, -mpo.qd, mpo.qD[i], -mpo.qD[i + 1]], f'A[{i}]')
    return fails


# ------------------------------------------------------------------------------------------- C16

def _graph_from_json(j):
    from pytenet.opgraph import OpGraph, OpGraphNode, OpGraphEdge
    nodes = [OpGraphNode(n['nid'], n['eids_in'], n['eids_out'], n['qnum']) for n in j['nodes']]
    shared = {}           # parallel edges are built from one caller-side list object, as in the symbolic harness
    edges = [OpGraphEdge(e['eid'], shared.setdefault(tuple(e['nids']), list(e['nids'])), [(o, c) for o, c in e['opics']]) for e in j['edges']]
    return OpGraph(nodes, edges, j['nid_terminal'])


def _graph_dump(g):
    return (sorted((k, n.nid, tuple(n.eids[0]), tuple(n.eids[1]), n.qnum) for k, n in g.nodes.items()),
            sorted((k, e.eid, tuple(e.nids), tuple(e.opics)) for k, e in g.edges.items()), tuple(g.nid_terminal))


@check('graph_rewrite')
def check_graph_rewrite(inp):
    from refs import words as W
    op = inp['op']
    g = _graph_from_json(inp['graph'])
    if not g.is_consistent():
        return []       # not a valid input
    w0 = W.graph_words(g)
    n0, e0 = len(g.nodes), len(g.edges)
    widths0 = W.layer_widths(g)
    ref = w0
    fails = []
    try:
        if op == 'simplify':
            g.simplify()
        elif op == 'seq2':
            g.simplify(); g.flip(); g.simplify(); g.flip()
        elif op == 'flip':
            g.flip(); ref = {tuple(reversed(w)): c for w, c in w0.items()}
        elif op == 'merge':
            g.merge_edges(inp['eid1'], inp['eid2'], inp['direction'])
        elif op == 'rename_node':
            g.rename_node_id(inp['cur'], inp['new'])
            if inp['new'] not in g.nodes:
                fails.append('renamed node missing')
        elif op == 'rename_edge':
            g.rename_edge_id(inp['cur'], inp['new'])
            if inp['new'] not in g.edges:
                fails.append('renamed edge missing')
        elif op == 'add':
            other = _graph_from_json(inp['other'])
            if not other.is_consistent():
                return []
            wh = W.graph_words(other)
            before = _graph_dump(other)
            g.add(other)
            ref = dict(w0)
            for w, c in wh.items():
                W.wadd(ref, w, c)
            if _graph_dump(other) != before:
                fails.append('add() modified the other graph')
            # later mutation of the result must not reach the other graph
            for n in g.nodes.values():
                n.eids[0].append(-12345); n.eids[1].append(-12345)
            if _graph_dump(other) != before:
                fails.append('result of add() shares edge-id lists with the other graph')
            for n in g.nodes.values():
                n.eids[0].remove(-12345); n.eids[1].remove(-12345)
    except AssertionError as e:
        if op == 'merge':
            return []   # precondition of merge_edges not met for the concrete values
        return [f'{op} raised AssertionError: {e}']
    except Exception as e:
        return [f'{op} raised {type(e).__name__}: {e}']
    if not g.is_consistent():
        fails.append(f'graph inconsistent after {op}')
    if not isinstance(g.nid_terminal, list) or any(not (isinstance(n.eids, tuple) and all(isinstance(x, list) for x in n.eids)) for n in g.nodes.values()) \
            or any(not isinstance(e.nids, list) for e in g.edges.values()):
        fails.append(f'container types changed by {op} (a later rewrite on this graph fails)')
    else:
        # a follow-up rename of both terminal nodes must still work (sequences of rewrites)
        try:
            g2 = copy.deepcopy(g)
            big = max(list(g2.nodes.keys())) + 1000
            g2.rename_node_id(g2.nid_terminal[0], big); g2.rename_node_id(g2.nid_terminal[1], big + 1)
            if not g2.is_consistent():
                fails.append(f'renaming the terminal nodes after {op} leaves an inconsistent graph')
        except Exception as e:
            fails.append(f'renaming the terminal nodes after {op} raised {type(e).__name__}: {e}')
    try:
        w1 = W.graph_words(g)
    except Exception as e:
        return fails + [f'graph walk failed after {op}: {e}']
    fails += _words_close(w1, ref)
    if op in ('simplify', 'seq2', 'merge'):
        if len(g.nodes) > n0 or len(g.edges) > e0:
            fails.append('number of nodes/edges increased')
        wa = W.layer_widths(g)
        if len(wa) != len(widths0) or any(a > b for a, b in zip(wa, widths0)):
            fails.append(f'layer width increased {widths0} -> {wa}')
    return fails


# ------------------------------------------------------------------------------------------- C17

def _tree_from_json(j):
    from pytenet.optree import OpTreeNode, OpTreeEdge
    return OpTreeNode([OpTreeEdge(c['oid'], c['coeff'], _tree_from_json(c['node'])) for c in j['children']], j['qnum'])


def _graph_checks(g, ref, L):
    from refs import words as W
    fails = []
    if not g.is_consistent():
        fails.append('graph not consistent')
    try:
        if g.length != L:
            fails.append(f'graph length {g.length} != {L}')
        got = W.graph_words(g)
    except Exception as e:
        return fails + [f'graph walk failed: {type(e).__name__}: {e}']
    if any(len(w) != L for w in got):
        fails.append('path of wrong length')
    fails += _words_close(got, ref)
    return fails


@check('optrees')
def check_optrees(inp):
    from pytenet.optree import OpTree
    from pytenet.opgraph import OpGraph
    from refs import words as W
    L = inp['L']
    trees = [OpTree(_tree_from_json(t['root']), t['istart']) for t in inp['trees']]
    oid_ident = int(inp.get('oid_identity', 0))
    ref = W.trees_words(trees, L, oid_ident)
    try:
        g = OpGraph.from_optrees(trees, L, oid_ident)
    except Exception as e:
        return [f'from_optrees raised {type(e).__name__}: {e}']
    return _graph_checks(g, ref, L)


@check('automaton')
def check_automaton(inp):
    from pytenet.autop import AutOp, AutOpNode, AutOpEdge
    from pytenet.opgraph import OpGraph
    from refs import words as W
    L, nn, term = inp['L'], inp['nn'], inp['term']
    ACT = {'true': lambda i: True, 'never': lambda i: False, 'first_only': lambda i: i == 0, 'not_first': lambda i: i != 0,
           'last_only': lambda i: i == L - 1}
    # reference DP
    cur = {term[0]: {(): 1}}
    for i in range(L):
        nxt = {}
        for e in inp['edges']:
            if e['a'] not in cur or not ACT[e['act']](i):
                continue
            for w, c in cur[e['a']].items():
                for oid, cc in e['opics'][i]:
                    W.wadd(nxt.setdefault(e['b'], {}), w + (int(oid),), c * cc)
        cur = nxt
    ref = cur.get(term[1], {})
    nodes = [AutOpNode(i, [], [], inp['qnums'][i]) for i in inp.get('node_order', list(range(nn)))]
    aut = AutOp(nodes, [], term)
    for eid, e in enumerate(inp['edges']):
        tbl = [[(o, c) for o, c in site] for site in e['opics']]
        opics = (lambda t: (lambda i: t[i]))(tbl) if e['site_dep'] else tbl[0]
        act = {'true': True, 'never': False}.get(e['act'], ACT[e['act']])
        aut.add_connect_edge(AutOpEdge(eid, [e['a'], e['b']], opics, act))
    try:
        g = OpGraph.from_automaton(aut, L)
    except Exception as e:
        if not ref:
            return []
        return [f'from_automaton raised {type(e).__name__}: {e}']
    if not ref:
        return ['no automaton path of this length, but a graph was returned']
    return _graph_checks(g, ref, L)


@check('dense_meaning')
def check_dense_meaning(inp):
    from refs import words as W
    from pytenet.opchain import OpChain
    from pytenet.optree import OpTree
    rng = np.random.default_rng(11)
    opmap = {0: rng.standard_normal((2, 2)), 1: rng.standard_normal((2, 2))}
    kind = inp['kind']
    try:
        if kind == 'dense_chain':
            M = OpChain(inp['oids'], [0] * (len(inp['oids']) + 1), inp['coeff'], 0).as_matrix(opmap)
            ref = W.words_matrix({tuple(inp['oids']): inp['coeff']}, opmap, 2)
        elif kind == 'dense_tree':
            root = _tree_from_json(inp['root'])
            tree = OpTree(root, 0)
            words = W.tree_words(root)
            h = max(len(w) for w in words)
            if tree.height() != h:
                return [f'height() = {tree.height()} != {h}']
            M = tree.as_matrix(opmap)
            om = dict(opmap); om['I'] = np.identity(2)
            padded = {}
            for w, c in words.items():
                W.wadd(padded, tuple(w) + ('I',) * (h - len(w)), c)
            ref = W.words_matrix(padded, om, 2)
        else:
            g = _graph_from_json(inp['graph'])
            M = g.as_matrix(opmap, inp['direction'])
            ref = W.words_matrix(W.graph_words(g), opmap, 2)
    except Exception as e:
        return [f'{kind}: as_matrix raised {type(e).__name__}: {e}']
    ref = np.array(ref, dtype=float)
    if not close(np.asarray(M, dtype=float), ref, float(np.max(np.abs(ref)))):
        return [f'{kind}: as_matrix differs from the word semantics']
    return []


# ------------------------------------------------------------------------------------------- C03 / C19 arithmetic

def _obj_from_json(j, kind):
    import pytenet as ptn
    cls = ptn.MPS if kind == 'mps' else ptn.MPO
    x = cls(np.array(j['qd'], dtype=int), [np.array(q, dtype=int) for q in j['qD']], fill='postpone')
    A = [np.array(a, dtype=complex) for a in j['A']]
    x.A = [a.real.copy() if np.all(a.imag == 0) else a for a in A]
    if j.get('dtype') == 'int':
        x.A = [np.rint(a.real).astype(int) for a in A]
    return x


def _dense(x, kind):
    from refs import dense as DN
    if kind == 'mps':
        return np.array(DN.dense_mps(x.A), dtype=complex)
    return np.array(DN.dense_mpo(x.A), dtype=complex)


def _invariant(x, kind, what):
    fails = []
    if not isinstance(x.qd, np.ndarray) or any(not isinstance(q, np.ndarray) for q in x.qD):
        fails.append(f'{what}: quantum numbers are not stored as NumPy arrays')
        return fails
    L = len(x.A)
    if len(x.qD) != L + 1:
        return [f'{what}: len(qD) != nsites + 1']
    for i in range(L):
        A = x.A[i]
        if kind == 'mps':
            if A.shape != (len(x.qd), len(x.qD[i]), len(x.qD[i + 1])):
                fails.append(f'{what}: A[{i}].shape {A.shape} does not match the quantum-number lists')
            else:
                fails += qsparse_fail(A, [x.qd, x.qD[i], -x.qD[i + 1]], f'{what}.A[{i}]')
        else:
            if A.shape != (len(x.qd), len(x.qd), len(x.qD[i]), len(x.qD[i + 1])):
                fails.append(f'{what}: A[{i}].shape {A.shape} does not match the quantum-number lists')
            else:
                fails += qsparse_fail(A, [x.qd, -x.qd, x.qD[i], -x.qD[i + 1]], f'{what}.A[{i}]')
    return fails


def _snapshot(objs):
    return [(copy.deepcopy(o.qd), [q.copy() for q in o.qD], [a.copy() for a in o.A], frozenset(vars(o))) for o in objs]


def _same(objs, snap):
    for o, (qd, qD, A, attrs) in zip(objs, snap):
        if frozenset(vars(o)) != attrs:
            return False          # the object gained or lost an attribute (e.g. a cache stored on the caller's Hamiltonian)
        if not np.array_equal(o.qd, qd) or len(o.qD) != len(qD) or any(not np.array_equal(a, b) for a, b in zip(o.qD, qD)):
            return False
        if len(o.A) != len(A) or any(a.shape != b.shape or a.dtype != b.dtype or not np.array_equal(a, b) for a, b in zip(o.A, A)):
            return False
    return True


def _mutate_result(res):
    """follow-up mutation of a result: must never reach the operands"""
    for a in res.A:
        a *= 0
        a += 7
    res.zero_qnumbers()
    res.qd += 3
    for q in res.qD:
        q += 5


def random_arith_input(rng, op, L, d=2, Dmax=3, real=(False, False)):
    import pytenet as ptn
    qd = rng.integers(-1, 2, size=d)
    kinds = dict(add_mps=('mps', 'mps'), add_mpo=('mpo', 'mpo'), multiply_mpo=('mpo', 'mpo'), apply_operator=('mpo', 'mps'))[op]
    ql = rng.integers(-1, 2, size=1); qr = rng.integers(-1, 2, size=1)
    out = dict(op=op, form=int(rng.integers(0, 3)), alpha=float(rng.standard_normal()))
    for k, kind in enumerate(kinds):
        D = [1] + [int(rng.integers(1, Dmax + 1)) for _ in range(L - 1)] + [1]
        qD = [ql] + [rng.integers(-1, 2, size=D[i]) for i in range(1, L)] + [qr]
        x = (ptn.MPS if kind == 'mps' else ptn.MPO)(qd, qD, fill='random', rng=rng)
        out[f'x{k}'] = dict(qd=qd.tolist(), qD=[q.tolist() for q in qD], A=[(a.real if real[k] else a).tolist() for a in x.A])
    return out


@check('arith')
def check_arith(inp):
    import pytenet as ptn
    from pytenet.mps import add_mps, merge_mps_tensor_pair, split_mps_tensor
    from pytenet.mpo import add_mpo
    from pytenet.operation import apply_operator
    op = inp['op']
    fails = []
    try:
        if op in ('add_mps', 'add_mpo'):
            kind = 'mps' if op == 'add_mps' else 'mpo'
            x0, x1 = _obj_from_json(inp['x0'], kind), _obj_from_json(inp['x1'], kind)
            if inp.get('same'):
                x1 = x0
            snap = _snapshot([x0, x1])
            form = inp.get('form', 2)
            if form == 0:
                res = x0 + x1; a = 1
            elif form == 1:
                res = x0 - x1; a = -1
            else:
                a = inp['alpha']; res = (add_mps if kind == 'mps' else add_mpo)(x0, x1, a)
            ref = _dense(x0, kind) + a * _dense(x1, kind)
            got = _dense(res, kind)
            operands_ = [x0, x1]; rk = kind
        elif op == 'multiply_mpo':
            x0, x1 = _obj_from_json(inp['x0'], 'mpo'), _obj_from_json(inp['x1'], 'mpo')
            if inp.get('same'):
                x1 = x0
            snap = _snapshot([x0, x1])
            res = x0 @ x1
            ref = _dense(x0, 'mpo') @ _dense(x1, 'mpo'); got = _dense(res, 'mpo')
            operands_ = [x0, x1]; rk = 'mpo'
        elif op == 'apply_operator':
            x0, x1 = _obj_from_json(inp['x0'], 'mpo'), _obj_from_json(inp['x1'], 'mps')
            snap = _snapshot([x0, x1])
            res = apply_operator(x0, x1)
            ref = _dense(x0, 'mpo') @ _dense(x1, 'mps'); got = _dense(res, 'mps')
            operands_ = [x0, x1]; rk = 'mps'
        elif op == 'identity':
            qd = np.array(inp['qd'], dtype=int)
            res = ptn.MPO.identity(qd, inp['L'], scale=inp['scale'])
            got = _dense(ptn.MPO.identity(qd, inp['L']), 'mpo'); ref = np.identity(len(qd) ** inp['L'])
            gs = _dense(res, 'mpo')
            if not close(gs, gs[0, 0] * np.identity(gs.shape[0]), abs(gs[0, 0])):
                fails.append('scaled identity MPO is not proportional to the identity')
            if inp['scale'] != 0 and abs(gs[0, 0]) == 0:
                fails.append('identity MPO with a non-zero scale is the zero operator')
            operands_ = []; snap = []; rk = 'mpo'
            qd0 = qd.copy(); res.zero_qnumbers()
            if not np.array_equal(qd, qd0):
                fails.append('identity MPO aliases its qd argument')
            res = ptn.MPO.identity(qd, inp['L'], scale=inp['scale'])
        elif op == 'dense_forms':
            W, psi = _obj_from_json(inp['x0'], 'mpo'), _obj_from_json(inp['x1'], 'mps')
            if not close(psi.as_vector(), _dense(psi, 'mps')) or not close(W.as_matrix(), _dense(W, 'mpo')):
                fails.append('as_vector / as_matrix differ from the explicit contraction')
            if not close(W.as_matrix(sparse_format=True).toarray(), _dense(W, 'mpo')):
                fails.append('sparse matrix form differs from the dense form')
            return fails
        elif op == 'chained':
            A, B, C = (_obj_from_json(inp[k], 'mpo') for k in ('x0', 'x1', 'x2'))
            psi = _obj_from_json(inp['x3'], 'mps')
            res = apply_operator((A + B) @ C, psi)
            ref = (_dense(A, 'mpo') + _dense(B, 'mpo')) @ _dense(C, 'mpo') @ _dense(psi, 'mps')
            got = _dense(res, 'mps'); operands_ = []; snap = []; rk = 'mps'
        elif op == 'from_vector':
            v = np.array(inp['v'], dtype=float)
            v0 = v.copy()
            psi = ptn.MPS.from_vector(inp['d'], inp['nsites'], v, tol=0)
            fails += _invariant(psi, 'mps', 'from_vector result')
            if fails:
                return fails
            if not close(_dense(psi, 'mps'), v0, float(np.max(np.abs(v0))) if v0.size else 1):
                fails.append('from_vector(tol=0) does not reproduce the vector')
            if not np.array_equal(v, v0):
                fails.append('from_vector modified its argument')
            try:
                psi.orthonormalize(mode='left')
            except Exception as e:
                fails.append(f'orthonormalize after from_vector raised {type(e).__name__}: {e}')
            return fails
        elif op == 'split':
            A = np.array(inp['A'], dtype=complex)
            if np.all(A.imag == 0):
                A = A.real.copy()
            A0_ = A.copy()
            qd0, qd1 = np.array(inp['qd0'], dtype=int), np.array(inp['qd1'], dtype=int)
            qD = [np.array(q, dtype=int) for q in inp['qD']]
            B0, B1, qb = split_mps_tensor(A, qd0, qd1, qD, inp['distr'], tol=0)
            if not close(merge_mps_tensor_pair(B0, B1), A0_, float(np.max(np.abs(A0_))) if A0_.size else 1):
                fails.append('merge(split(A, tol=0)) != A')
            if not np.array_equal(A, A0_):
                fails.append('split_mps_tensor modified its argument')
            if len(qb) != B0.shape[2]:
                fails.append('len(qbond) != new bond dimension')
            else:
                fails += qsparse_fail(B0, [qd0, qD[0], -np.asarray(qb)], 'A0') + qsparse_fail(B1, [qd1, np.asarray(qb), -qD[1]], 'A1')
            return fails
        else:
            return [f'unknown op {op}']
    except Exception as e:
        return [f'{op} raised {type(e).__name__}: {e}']
    sc = float(np.max(np.abs(ref))) if ref.size else 1.0
    if got.shape != ref.shape or not close(got, ref, sc):
        fails.append(f'{op}: dense form of the result differs from the dense expression of the operands')
    fails += _invariant(res, rk, 'result')
    if operands_:
        if not _same(operands_, snap):
            fails.append(f'{op} modified an operand')
        _mutate_result(res)
        if not _same(operands_, snap):
            fails.append(f'mutating the result of {op} changed an operand (shared state)')
    return fails


# ------------------------------------------------------------------------------------------- C04

def random_operation_input(rng, L, d=2, Dmax=3, zero_q=False):
    import pytenet as ptn
    if zero_q:
        # all charges zero: dense tensors, so that inner products and expectation values do not vanish by symmetry
        pass
    qd = rng.integers(-1, 2, size=d) if not zero_q else np.zeros(d, dtype=int)
    def prof():
        return [1] + [int(rng.integers(1, Dmax + 1)) for _ in range(L - 1)] + [1]
    out = dict(L=L)
    ql = [0]; qr = [int(rng.integers(-1, 2)) if not zero_q else 0]
    for name, kind in (('psi', 'mps'), ('chi', 'mps'), ('H', 'mpo'), ('rho', 'mpo')):
        D = prof()
        if zero_q:
            qD = [np.zeros(n, dtype=int) for n in D]
        elif kind == 'mps':
            qD = [np.array(ql)] + [rng.integers(-1, 2, size=D[i]) for i in range(1, L)] + [np.array(qr)]
        else:
            qD = [np.array([0])] + [rng.integers(-1, 2, size=D[i]) for i in range(1, L)] + [np.array([0])]
        x = (ptn.MPS if kind == 'mps' else ptn.MPO)(qd, qD, fill='random', rng=rng)
        out[name] = dict(qd=qd.tolist(), qD=[q.tolist() for q in qD], A=[a.tolist() for a in x.A])
    return out


@check('operation')
def check_operation(inp):
    import pytenet as ptn
    from pytenet import operation as OP
    from pytenet.mps import merge_mps_tensor_pair
    from pytenet.mpo import merge_mpo_tensor_pair
    from refs import dense as DN
    kind, L = inp['kind'], inp['L']
    fails = []
    rng = np.random.default_rng(5)
    try:
        psi = _obj_from_json(inp['psi'], 'mps')
        if kind == 'scalars':
            chi = _obj_from_json(inp['chi'], 'mps'); H = _obj_from_json(inp['H'], 'mpo'); rho = _obj_from_json(inp['rho'], 'mpo')
            objs = [psi, chi, H, rho]; snap = _snapshot(objs)
            vp, vc, M, R = _dense(psi, 'mps'), _dense(chi, 'mps'), _dense(H, 'mpo'), _dense(rho, 'mpo')
            sc = max(1.0, float(np.linalg.norm(vp)) * float(np.linalg.norm(vc)) * max(1.0, float(np.linalg.norm(M))))
            if abs(OP.vdot(chi, psi) - np.vdot(vc, vp)) > TOL * sc:
                fails.append('vdot differs from the dense inner product (first argument conjugated)')
            if abs(OP.norm(psi) - np.linalg.norm(vp)) > TOL * sc:
                fails.append('norm differs')
            if abs(OP.operator_average(psi, H) - np.vdot(vp, M @ vp)) > TOL * sc * max(1.0, float(np.linalg.norm(vp))):
                fails.append('operator_average differs')
            if abs(OP.operator_inner_product(chi, H, psi) - np.vdot(vc, M @ vp)) > TOL * sc:
                fails.append('operator_inner_product differs')
            if abs(OP.operator_density_average(rho, H) - np.trace(M @ R)) > TOL * max(1.0, float(np.linalg.norm(M)) * float(np.linalg.norm(R))):
                fails.append('operator_density_average differs from tr[op rho]')
            if not _same(objs, snap):
                fails.append('an argument was modified')
            return fails
        H = _obj_from_json(inp['H'], 'mpo')
        objs = [psi, H]; snap = _snapshot(objs)
        i = inp.get('site') or 0
        M = _dense(H, 'mpo')
        BR = OP.compute_right_operator_blocks(psi, H)
        BL = [np.array([[[1]]], dtype=complex)]
        for k in range(L - 1):
            BL.append(OP.contraction_operator_step_left(psi.A[k], psi.A[k], H.A[k], BL[k]))
        d = len(psi.qd)

        def rnd(shape, key):
            if key in inp and inp[key] is not None:
                return np.array(inp[key], dtype=complex).reshape(shape)
            if inp.get('real_xy'):
                return rng.standard_normal(shape)          # real local tensors with (complex) environment blocks
            return rng.standard_normal(shape) + 1j * rng.standard_normal(shape)
        if kind in ('local1', 'hermitian'):
            X = rnd(psi.A[i].shape, 'X'); Y = rnd(psi.A[i].shape, 'Y')
            lhs = np.vdot(Y, OP.apply_local_hamiltonian(BL[i], BR[i], H.A[i], X))
            AX = list(psi.A); AX[i] = X; AY = list(psi.A); AY[i] = Y
            vx = np.array(DN.dense_mps(AX), dtype=complex); vy = np.array(DN.dense_mps(AY), dtype=complex)
            rhs = np.vdot(vy, M @ vx)
            if kind == 'hermitian' and np.allclose(M, M.conj().T):
                other = np.vdot(X, OP.apply_local_hamiltonian(BL[i], BR[i], H.A[i], Y))
                if abs(lhs - np.conj(other)) > TOL * max(1.0, abs(lhs)):
                    fails.append('local Hamiltonian is not Hermitian although the MPO is')
        elif kind == 'local2':
            Hm = merge_mpo_tensor_pair(H.A[i], H.A[i + 1])
            shape = merge_mps_tensor_pair(psi.A[i], psi.A[i + 1]).shape
            X = rnd(shape, 'X'); Y = rnd(shape, 'Y')
            lhs = np.vdot(Y, OP.apply_local_hamiltonian(BL[i], BR[i + 1], Hm, X))

            def dense_two(T):
                out = []
                for phys in itertools.product(range(d), repeat=L):
                    Mx = None; k = 0
                    while k < L:
                        if k == i:
                            blk = T[phys[i] * d + phys[i + 1]]; k += 2
                        else:
                            blk = psi.A[k][phys[k]]; k += 1
                        Mx = blk if Mx is None else Mx @ blk
                    out.append(Mx[0, 0])
                return np.array(out, dtype=complex)
            rhs = np.vdot(dense_two(Y), M @ dense_two(X))
        elif kind == 'local0':
            Dm = psi.A[i].shape[2]
            X = rnd((Dm, Dm), 'X'); Y = rnd((Dm, Dm), 'Y')
            lhs = np.vdot(Y, OP.apply_local_bond_contraction(BL[i + 1], BR[i], X))

            def dense_bond(C):
                out = []
                for phys in itertools.product(range(d), repeat=L):
                    Mx = None
                    for k in range(L):
                        blk = psi.A[k][phys[k]]
                        Mx = blk if Mx is None else Mx @ blk
                        if k == i:
                            Mx = Mx @ C
                    out.append(Mx[0, 0])
                return np.array(out, dtype=complex)
            rhs = np.vdot(dense_bond(Y), M @ dense_bond(X))
        elif kind == 'mixed':
            chi = _obj_from_json(inp['chi'], 'mps')
            objs = [psi, chi, H]; snap = _snapshot(objs)
            bl = np.array([[[1]]], dtype=complex)
            for k in range(i):
                bl = OP.contraction_operator_step_left(psi.A[k], chi.A[k], H.A[k], bl)
            br = np.array([[[1]]], dtype=complex)
            for k in reversed(range(i + 1, L)):
                br = OP.contraction_operator_step_right(psi.A[k], chi.A[k], H.A[k], br)
            X = rnd(psi.A[i].shape, 'X'); Y = rnd(chi.A[i].shape, 'Y')
            HX = OP.apply_local_hamiltonian(bl, br, H.A[i], X)
            if HX.shape != Y.shape:
                return [f'local operator maps to shape {HX.shape}, expected {Y.shape}']
            lhs = np.vdot(Y, HX)
            AX = list(psi.A); AX[i] = X; AY = list(chi.A); AY[i] = Y
            rhs = np.vdot(np.array(DN.dense_mps(AY), dtype=complex), M @ np.array(DN.dense_mps(AX), dtype=complex))
        elif kind == 'steps':
            chi = _obj_from_json(inp['chi'], 'mps')
            T = np.array([[1]], dtype=complex)
            for k in range(L):
                T = OP.contraction_step_left(psi.A[k], chi.A[k], T)
            lhs = T[0, 0]; rhs = np.vdot(_dense(chi, 'mps'), _dense(psi, 'mps'))
        else:
            return [f'unknown kind {kind}']
        if abs(lhs - rhs) > TOL * max(1.0, abs(lhs), abs(rhs)):
            fails.append(f'{kind}: local matrix element {lhs} differs from the dense matrix element {rhs}')
        if not _same(objs, snap):
            fails.append('an argument was modified')
    except Exception as e:
        return [f'{kind} raised {type(e).__name__}: {e}']
    return fails


# ------------------------------------------------------------------------------------------- C01

def random_state_input(rng, cls, L, d=2, Dmax=3, qrange=(-1, 2), real=False, integer=False):
    import pytenet as ptn
    qd = rng.integers(*qrange, size=d)
    D = [1] + [int(rng.integers(1, Dmax + 1)) for _ in range(L - 1)] + [1]
    qD = [rng.integers(*qrange, size=n) for n in D]
    x = (ptn.MPS if cls == 'mps' else ptn.MPO)(qd, qD, fill='random', rng=rng)
    if integer:
        A = [np.where(a != 0, rng.integers(-3, 4, size=a.shape), 0).tolist() for a in x.A]
        return dict(cls=cls, x=dict(qd=qd.tolist(), qD=[q.tolist() for q in qD], A=A, dtype='int'))
    A = [a.real.tolist() if real else a.tolist() for a in x.A]
    return dict(cls=cls, x=dict(qd=qd.tolist(), qD=[q.tolist() for q in qD], A=A))


def _iso_fail(T, kind, mode, i):
    s = T.shape
    if kind == 'mps':
        M = T.reshape((s[0] * s[1], s[2])) if mode == 'left' else T.transpose((0, 2, 1)).reshape((s[0] * s[2], s[1]))
    else:
        M = T.reshape((s[0] * s[1] * s[2], s[3])) if mode == 'left' else T.transpose((0, 1, 3, 2)).reshape((s[0] * s[1] * s[3], s[2]))
    if not close(M.conj().T @ M, np.identity(M.shape[1])):
        return [f'site tensor {i} is not an isometry ({mode})']
    return []


@check('orthonormalize')
def check_orthonormalize(inp):
    kind, mode = inp['cls'], inp['mode']
    x = _obj_from_json(inp['x'], kind)
    L = len(x.A)
    old = _dense(x, kind)
    old_dims = list(x.bond_dims)
    old_q = [x.qD[0].copy(), x.qD[-1].copy()]
    pd = len(x.qd) if kind == 'mps' else len(x.qd) ** 2
    try:
        nrm = x.orthonormalize(mode=mode)
    except Exception as e:
        return [f'orthonormalize raised {type(e).__name__}: {e}']
    fails = []
    sc = float(np.linalg.norm(old))
    if not (nrm >= 0):
        fails.append(f'returned factor {nrm} is negative')
    if abs(nrm - sc) > TOL * max(1.0, sc):
        fails.append(f'returned factor {nrm} != Frobenius norm {sc}')
    fails += _invariant(x, kind, 'result')
    if fails:
        return fails
    new = _dense(x, kind)
    if not close(nrm * new, old, sc):
        fails.append('factor * dense(new) != dense(old)')
    for i in range(L):
        fails += _iso_fail(x.A[i], kind, mode, i)
    if sc > 0 and abs(np.linalg.norm(new) - 1) > 1e-8:
        fails.append('result does not have unit norm')
    nd = x.bond_dims
    for i in range(L):
        if mode == 'left' and nd[i + 1] > min(pd * nd[i], old_dims[i + 1]):
            fails.append(f'bond {i + 1} larger than the neighbouring dimensions allow')
        if mode == 'right' and nd[i] > min(pd * nd[i + 1], old_dims[i]):
            fails.append(f'bond {i} larger than the neighbouring dimensions allow')
    if sc > 1e-12 and (not np.array_equal(x.qD[0], old_q[0]) or not np.array_equal(x.qD[-1], old_q[1])):
        fails.append('boundary quantum numbers of a non-zero state changed')
    return fails


# ------------------------------------------------------------------------------------------- C12

def _trunc_rule_fails(all_s, kept_idx, tol):
    fails = []
    all_s = np.asarray(all_s, dtype=float)
    w2 = float(np.sum(all_s ** 2))
    if w2 == 0:
        return fails
    t = all_s ** 2 / w2
    kept = np.zeros(len(all_s), dtype=bool); kept[list(kept_idx)] = True
    dsum = float(np.sum(t[~kept]))
    eps = 1e-12
    if dsum > tol + eps:
        fails.append(f'discarded relative weight {dsum} exceeds the tolerance {tol}')
    if np.any(kept) and np.any(~kept) and np.min(t[kept]) < np.max(t[~kept]) - eps:
        fails.append('a kept singular value is smaller than a discarded one')
    if np.any(kept) and dsum + float(np.min(t[kept])) <= tol - eps:
        fails.append('truncation is not maximal: one more singular value could have been discarded')
    if np.any(all_s[kept] <= 0):
        fails.append('a kept singular value is not positive')
    return fails


@check('svd_split')
def check_svd_split(inp):
    from pytenet.bond_ops import split_matrix_svd
    A = arr(inp['A']); q0 = np.array(inp['q0'], dtype=int); q1 = np.array(inp['q1'], dtype=int)
    if np.all(A.imag == 0):
        A = A.real.astype(float)
    tol = float(inp['tol'])
    m, n = A.shape
    A0 = A.copy()
    try:
        u, s, v, q = split_matrix_svd(A, q0, q1, tol)
    except Exception as e:
        return [f'split_matrix_svd raised {type(e).__name__}: {e}']
    fails = []
    k = len(s)
    if u.shape != (m, k) or v.shape != (k, n) or len(q) != k:
        return [f'shape mismatch u{u.shape} v{v.shape} len(s)={k} len(q)={len(q)}']
    if not np.array_equal(A, A0):
        fails.append('input array was modified')
    sc = float(np.max(np.abs(A0))) if A0.size else 1.0
    prod = (u * s) @ v
    if not np.any(A0):
        if np.any(np.abs(prod) > TOL):
            fails.append('zero matrix: product is not zero')
        return fails
    common = np.intersect1d(q0, q1)
    # full spectrum by an independent block-wise SVD
    full = []
    for qn in common:
        blk = A0[np.ix_(q0 == qn, q1 == qn)]
        full += list(np.linalg.svd(blk, compute_uv=False))
    full = np.array(sorted(full, reverse=True))
    kept_sorted = np.array(sorted(np.asarray(s, dtype=float), reverse=True))
    if k > len(full) or not np.allclose(kept_sorted, full[:k], atol=1e-9 * max(1.0, sc)):
        fails.append('returned singular values are not the largest singular values of the matrix')
    else:
        fails += _trunc_rule_fails(full, range(k), tol)
    if np.any(np.asarray(s) <= 0):
        fails.append('a returned singular value is not positive')
    if k:
        if not close(u.conj().T @ u, np.identity(k)) or not close(v @ v.conj().T, np.identity(k)):
            fails.append('u or v is not an isometry')
    err = float(np.linalg.norm(A0 - prod))
    disc = float(np.sqrt(max(0.0, np.sum(full[k:] ** 2)))) if k <= len(full) else 0.0
    if abs(err - disc) > 1e-8 * max(1.0, sc):
        fails.append(f'||A - u s v||_F = {err} differs from sqrt of the discarded squared singular values {disc}')
    if tol == 0 and err > 1e-8 * max(1.0, sc):
        fails.append('tol = 0 but the product differs from the matrix')
    fails += qsparse_fail(u, [q0, -np.asarray(q)], 'u') + qsparse_fail(v, [np.asarray(q), -q1], 'v')
    return fails


@check('retained')
def check_retained(inp):
    from pytenet.bond_ops import retained_bond_indices
    s = np.array(inp['s'], dtype=float); tol = float(inp['tol'])
    s0 = s.copy()
    try:
        idx = retained_bond_indices(s, tol)
    except Exception as e:
        return [f'retained_bond_indices raised {type(e).__name__}: {e}']
    fails = []
    if not np.array_equal(s, s0):
        fails.append('retained_bond_indices modified the singular values handed to it')
    idx = [int(i) for i in idx]
    if sorted(set(idx)) != idx or any(not (0 <= i < len(s)) for i in idx):
        return fails + [f'indices {idx} invalid']
    if not np.any(s0):
        return fails + (['zero vector but indices retained'] if idx else [])
    return fails + _trunc_rule_fails(s0, idx, tol)


@check('split_tol')
def check_split_tol(inp):
    from pytenet.mps import split_mps_tensor, merge_mps_tensor_pair
    A = np.array(inp['A'], dtype=float); A0 = A.copy()
    qd0, qd1 = np.array(inp['qd0'], dtype=int), np.array(inp['qd1'], dtype=int)
    qD = [np.array(x, dtype=int) for x in inp['qD']]
    tol = float(inp['tol'])
    try:
        B0, B1, qb = split_mps_tensor(A, qd0, qd1, qD, inp['distr'], tol=tol)
    except Exception as e:
        return [f'split_mps_tensor raised {type(e).__name__}: {e}']
    fails = []
    if not np.array_equal(A, A0):
        fails.append('split_mps_tensor modified its argument')
    d0, d1 = len(qd0), len(qd1)
    M = A0.reshape((d0, d1, A0.shape[1], A0.shape[2])).transpose((0, 2, 1, 3)).reshape((d0 * A0.shape[1], d1 * A0.shape[2]))
    full = np.linalg.svd(M, compute_uv=False)
    k = len(qb)
    err = float(np.linalg.norm(merge_mps_tensor_pair(B0, B1) - A0))
    disc = float(np.sqrt(np.sum(full[k:] ** 2)))
    if abs(err - disc) > 1e-8 * max(1.0, float(np.max(np.abs(A0)))):
        fails.append(f'split error {err} differs from the discarded singular values {disc}')
    if np.any(A0):
        fails += _trunc_rule_fails(full, range(k), tol)
    fails += qsparse_fail(B0, [qd0, qD[0], -np.asarray(qb)], 'A0') + qsparse_fail(B1, [qd1, np.asarray(qb), -qD[1]], 'A1')
    return fails


# ------------------------------------------------------------------------------------------- C14

@check('krylov')
def check_krylov(inp):
    import pytenet.krylov as K
    alg = inp['alg']; m = inp['m']
    A = arr(inp['A']); v = arr(inp['v'])
    if np.all(A.imag == 0):
        A = A.real.astype(float)
    if np.all(v.imag == 0):
        v = v.real.astype(float)        # a real start vector stays real even for a complex map (dtype handling of the iteration)
        if inp.get('v_int'):
            v = np.rint(v).astype(int)
    n = len(v)
    if not np.any(v):
        return []
    f = lambda x: A @ x
    fails = []
    try:
        if alg in ('lanczos', 'arnoldi'):
            if alg == 'lanczos':
                alpha, beta, V = K.lanczos_iteration(f, v.copy(), m)
                k = V.shape[1] if V.ndim == 2 else -1
                if V.ndim != 2 or V.shape[0] != n or len(alpha) != k or len(beta) != k - 1 or not 1 <= k <= m:
                    return [f'inconsistent output sizes: len(alpha)={len(alpha)}, len(beta)={len(beta)}, V{V.shape}']
                T = np.diag(alpha) + np.diag(beta, 1) + np.diag(beta, -1)
                if np.any(np.asarray(beta) <= 0):
                    fails.append('non-positive off-diagonal on a non-breakdown step')
                if np.iscomplexobj(alpha):
                    fails.append('alpha is not real')
            else:
                H, V = K.arnoldi_iteration(f, v.copy(), m)
                k = V.shape[1] if V.ndim == 2 else -1
                if V.ndim != 2 or V.shape[0] != n or H.shape != (k, k) or not 1 <= k <= m:
                    return [f'inconsistent output sizes: H{H.shape}, V{V.shape}']
                T = H
                if np.any(np.abs(np.tril(H, -2)) > 0):
                    fails.append('H is not upper Hessenberg')
            sc = max(1.0, float(np.linalg.norm(A)))
            # relations are only required while the Krylov space has the requested dimension (well-conditioned case)
            Kmat = np.array([np.linalg.matrix_power(A, j) @ v for j in range(k)]).T
            if np.linalg.matrix_rank(Kmat, tol=1e-8 * sc ** max(k - 1, 1) * float(np.linalg.norm(v))) == k and k <= 2:
                if not np.allclose(V.conj().T @ V, np.identity(k), atol=1e-8):
                    fails.append('Krylov vectors are not orthonormal')
                if not np.allclose(V.conj().T @ A @ V, T, atol=1e-8 * sc):
                    fails.append('projected map V^H A V differs from the returned matrix')
        elif alg == 'eigh':
            w, u = K.eigh_krylov(f, v.copy(), m, 1)
            if len(w) != 1 or u.shape != (n, 1):
                fails.append(f'eigh_krylov output shapes {np.shape(w)}, {u.shape}')
        else:
            r = K.expm_krylov(f, v.copy(), 0.3, m, hermitian=(alg == 'expm_h'))
            if np.shape(r) != (n,):
                fails.append(f'expm_krylov output shape {np.shape(r)}')
    except Exception as e:
        return [f'{alg} raised {type(e).__name__}: {e}']
    return fails


# ------------------------------------------------------------------------------------------- C07

@check('molecular')
def check_molecular(inp):
    import pytenet as ptn
    from refs import models as Mo
    tk = arr(inp['tkin']); vi = arr(inp['vint'])
    if np.all(tk.imag == 0) and np.all(vi.imag == 0):
        tk = tk.real.astype(float); vi = vi.real.astype(float)
    if inp.get('dtype') == 'int':
        tk = np.rint(tk).astype(int); vi = np.rint(vi).astype(int)
    L = tk.shape[0]
    kind, opt = inp['kind'], inp['optimize']
    f = ptn.molecular_hamiltonian_mpo if kind == 'spinless' else ptn.spin_molecular_hamiltonian_mpo
    t0, v0 = tk.copy(), vi.copy()
    try:
        mpo = f(tk, vi, optimize=opt)
    except Exception as e:
        d_ = 2 if kind == 'spinless' else 4
        if opt and d_ ** L <= 256:
            refz = _num(Mo.molecular(tk.tolist(), vi.tolist()) if kind == 'spinless' else Mo.spin_molecular(tk.tolist(), vi.tolist()))
            if not np.any(refz):
                return []      # identically-zero operator: outside the property (the chain compiler needs a non-zero term)
        return [f'{kind} molecular Hamiltonian (L={L}, optimize={opt}) raised {type(e).__name__}: {e}']
    fails = []
    if not np.array_equal(tk, t0) or not np.array_equal(vi, v0):
        fails.append('coefficient tensors were modified')
    d = 2 if kind == 'spinless' else 4
    if d ** L <= 1024:
        ref = _num(Mo.molecular(tk.tolist(), vi.tolist()) if kind == 'spinless' else Mo.spin_molecular(tk.tolist(), vi.tolist()))
        M = mpo.as_matrix()
        if not close(M, ref, float(np.max(np.abs(ref))) if ref.size else 1.0):
            fails.append('dense matrix differs from the second-quantised operator')
    else:
        # beyond dense reach: every column, by sparse propagation of the basis states through the MPO chain
        from refs import dense as DN
        nmodes = L if kind == 'spinless' else 2 * L
        states = Mo.states_up_to(nmodes, nmodes)
        got = DN.mpo_columns([np.asarray(A_) for A_ in mpo.A], d, states)
        terms = Mo.molecular_terms(tk.tolist(), vi.tolist()) if kind == 'spinless' else Mo.spin_molecular_terms(tk.tolist(), vi.tolist())
        refc = Mo.operator_columns(nmodes, terms, states)
        scale = max(1.0, float(np.max(np.abs(tk))) if tk.size else 1.0, float(np.max(np.abs(vi))) if vi.size else 1.0)
        bad = 0
        for st in states:
            for r in set(got[st]) | set(refc[st]):
                if abs(complex(got[st].get(r, 0)) - complex(refc[st].get(r, 0))) > 1e-9 * scale * (1 + L ** 4):
                    bad += 1
        if bad:
            fails.append(f'{bad} matrix entries differ from the second-quantised operator (column-wise comparison)')
    for i, A in enumerate(mpo.A):
        fails += qsparse_fail(A, [mpo.qd, -mpo.qd, mpo.qD[i], -mpo.qD[i + 1]], f'A[{i}]')
    if not opt:
        nm = mpo.nid_map
        for attr in dir(mpo):
            if attr.startswith('nids_'):
                for key, bymap in getattr(mpo, attr).items():
                    if not isinstance(bymap, dict):
                        bymap = {key: bymap}
                    for bond, nid in bymap.items():
                        if nid not in nm or nm[nid][0] != bond:
                            fails.append(f'{attr}[{key}][{bond}] not located consistently by nid_map')
                            return fails
    return fails


# ------------------------------------------------------------------------------------------- C13

@check('compress')
def check_compress(inp):
    mode = inp['mode']; tol = float(inp['tol'])
    x = _obj_from_json(inp['x'], 'mps')
    L = len(x.A)
    old = _dense(x, 'mps')
    old_dims = list(x.bond_dims)
    n0 = float(np.linalg.norm(old))
    if n0 == 0:
        return []
    old_q = [x.qD[0].copy(), x.qD[-1].copy()]
    try:
        nrm, scale = x.compress(tol, mode=mode)
    except Exception as e:
        return [f'compress raised {type(e).__name__}: {e}']
    fails = []
    if abs(nrm - n0) > TOL * max(1.0, n0):
        fails.append(f'returned norm {nrm} != norm of the original state {n0}')
    lo = np.sqrt(max(0.0, 1 - L * tol))
    if not (lo - 1e-9 <= scale <= 1 + 1e-9):
        fails.append(f'scale {scale} outside [sqrt(1 - L tol), 1] = [{lo}, 1]')
    fails += _invariant(x, 'mps', 'result')
    if fails:
        return fails
    new = _dense(x, 'mps')
    if abs(np.linalg.norm(new) - 1) > 1e-8:
        fails.append('compressed state is not normalised')
    for i in range(L):
        fails += _iso_fail(x.A[i], 'mps', mode, i)
    if any(a > b for a, b in zip(x.bond_dims, old_dims)):
        fails.append(f'bond dimensions grew {old_dims} -> {x.bond_dims}')
    err = float(np.linalg.norm(old - nrm * scale * new))
    expect = n0 * np.sqrt(max(0.0, 1 - scale ** 2))
    if abs(err - expect) > 1e-7 * max(1.0, n0):
        fails.append(f'error {err} differs from nrm sqrt(1 - scale^2) = {expect}')
    if err > n0 * np.sqrt(L * tol) + 1e-8 * max(1.0, n0):
        fails.append(f'error {err} exceeds nrm sqrt(L tol) = {n0 * np.sqrt(L * tol)}')
    if tol == 0 and err > 1e-8 * max(1.0, n0):
        fails.append('tol = 0 but the compression is not exact')
    if not np.array_equal(x.qD[0], old_q[0]) or not np.array_equal(x.qD[-1], old_q[1]):
        fails.append('boundary quantum numbers changed')
    # the first truncated bond keeps exactly the Schmidt values prescribed by the tolerance rule
    if L >= 2:
        d = len(x.qd)
        b = 1 if mode == 'left' else L - 1
        M = (old / n0).reshape((d ** b, d ** (L - b)))
        sv = np.linalg.svd(M, compute_uv=False)
        w = np.sort(sv ** 2)              # ascending
        cum = np.cumsum(w)
        if not np.any(np.abs(cum - tol) < 1e-9) and not np.any(np.abs(np.diff(w)) < 1e-12):
            expected = int(np.sum(cum > tol))
            # singular values that are numerically zero are dropped by the strict comparison at tol = 0 as well
            expected = min(expected, int(np.sum(sv > 1e-14)))
            if x.bond_dims[b] != expected:
                fails.append(f'first truncated bond keeps {x.bond_dims[b]} Schmidt values, the tolerance rule prescribes {expected}')
    return fails


# ------------------------------------------------------------------------------------------- C02 / C19 operation steps

def _charges(name, n, given, rng):
    out = []
    for i in range(n):
        key = f'{name}_{i}'
        out.append(int(given[key]) if key in given else int(rng.integers(-1, 2)))
    return np.array(out, dtype=int)


def _mk_charges(task, d, profiles, given, rng, share_boundary=True):
    qm = task.get('qmode', 'sym')
    if qm == 'zero':
        return np.zeros(d, dtype=int), [[np.zeros(n, dtype=int) for n in P] for P in profiles]
    if qm == 'pair':
        qd = np.array([(0 << 16) + 0, (1 << 16) - 1, (1 << 16) + 1, (2 << 16) + 0][:d], dtype=int)
        # bond charges that make some entries survive: differences of physical charges
        given = dict(given)
    else:
        qd = _charges('qd', d, given, rng)
    ql = _charges('ql', 1, given, rng); qr = _charges('qr', 1, given, rng)
    if qm == 'pair' and 'ql_0' not in given:
        ql = np.array([0]); qr = np.array([int(rng.choice(qd))])
    out = []
    for k, P in enumerate(profiles):
        L = len(P) - 1
        a, b = (ql, qr) if share_boundary else (_charges(f'ql{k}', 1, given, rng), _charges(f'qr{k}', 1, given, rng))
        qD = [a.copy()]
        for i in range(1, L):
            q = _charges(f'q{k}_{i}', P[i], given, rng)
            if qm == 'pair' and f'q{k}_{i}_0' not in given:
                q = np.array([int(rng.choice(qd)) for _ in range(P[i])])
            qD.append(q)
        qD.append(b.copy())
        out.append(qD)
    return qd, out


def _rand_obj(rng, kind, qd, qD, real=False):
    import pytenet as ptn
    x = (ptn.MPS if kind == 'mps' else ptn.MPO)(qd, qD, fill='random', rng=rng)
    if real:
        x.A = [a.real.copy() for a in x.A]
    return x


def _shares(res, operands):
    for o in operands:
        for a in res.A:
            for b in o.A:
                if np.shares_memory(a, b):
                    return 'result tensor shares memory with an operand tensor'
        if np.shares_memory(res.qd, o.qd):
            return 'result.qd shares memory with an operand'
        for qa in res.qD:
            for qb in o.qD:
                if qa.size and qb.size and np.shares_memory(qa, qb):
                    return 'result.qD shares memory with an operand bond quantum number array'
    return None


def _op_once(task, given, rng, focus):
    """run one concrete operation step; returns list of failures for the given focus ('C02' invariant / 'C19' aliasing)"""
    import pytenet as ptn
    from pytenet.mps import split_mps_tensor
    from pytenet.operation import apply_operator
    import pytenet.evolution as EV, pytenet.minimization as MI
    op = task['op']
    fails = []
    results = []; untouched = []; operands = []; boundary = None; pure = True

    if op == 'constructor':
        d, P, cls = task['d'], task['D'], task['cls']
        qd, (qD,) = _mk_charges(task, d, [P], given, rng)
        qd0 = qd.copy(); qD0 = [q.copy() for q in qD]
        x = (ptn.MPS if cls == 'mps' else ptn.MPO)(qd, qD, fill=(0.7 if task['fill'] == 'number' else 'random'), rng=rng)
        results = [(x, cls, 'constructed')]
        if focus == 'C19':
            x.zero_qnumbers()
            if not np.array_equal(qd, qd0) or any(not np.array_equal(a, b) for a, b in zip(qD, qD0)):
                fails.append('constructor result shares its quantum-number arrays with the arguments')
    elif op == 'zero_qnumbers':
        d, P, cls = task['d'], task['D'], task['cls']
        qd, (qD,) = _mk_charges(task, d, [P], given, rng)
        if task.get('free_boundary'):
            qD[-1] = _charges('qtot', 1, given, rng)
            if not np.any(qD[-1]):
                qD[-1] = np.array([int(rng.integers(1, 3))])
        x = _rand_obj(rng, cls, qd, qD)
        x.zero_qnumbers()
        results = [(x, cls, 'zero_qnumbers')]; pure = False
    elif op in ('orthonormalize', 'compress'):
        d, P = task['d'], task['D']
        cls = task.get('cls', 'mps')
        qd, (qD,) = _mk_charges(task, d, [P], given, rng)
        x = _rand_obj(rng, cls, qd, qD)
        old = (x.qD[0].copy(), x.qD[-1].copy()); n0 = float(np.linalg.norm(_dense(x, cls)))
        if op == 'orthonormalize':
            x.orthonormalize(mode=task['mode'])
        else:
            if n0 == 0:
                return []
            x.compress(float(given.get('tol', rng.choice([0.0, 0.05, 0.3]))) / max(1, len(P) - 1), mode=task['mode'])
        results = [(x, cls, op)]; boundary = (x, old, n0); pure = False
    elif op == 'binary':
        d, P0, P1, which = task['d'], task['D'], task['D1'], task['which']
        kinds = dict(add_mps=('mps', 'mps'), sub_mps=('mps', 'mps'), add_mpo=('mpo', 'mpo'), sub_mpo=('mpo', 'mpo'), matmul=('mpo', 'mpo'), apply=('mpo', 'mps'))[which]
        qd, qDs = _mk_charges(task, d, [P0, P1], given, rng, share_boundary=which not in ('matmul', 'apply'))
        xs = [_rand_obj(rng, k, qd.copy(), qD) for k, qD in zip(kinds, qDs)]
        if task.get('same'):
            xs[1] = xs[0]
        snap = _snapshot(xs)
        res = {'add_mps': lambda: xs[0] + xs[1], 'sub_mps': lambda: xs[0] - xs[1], 'add_mpo': lambda: xs[0] + xs[1], 'sub_mpo': lambda: xs[0] - xs[1],
               'matmul': lambda: xs[0] @ xs[1], 'apply': lambda: apply_operator(xs[0], xs[1])}[which]()
        rk = 'mps' if which in ('add_mps', 'sub_mps', 'apply') else 'mpo'
        results = [(res, rk, which)]; operands = xs; untouched = (xs, snap)
    elif op == 'split':
        d0, d1, D0, D2 = task['d0'], task['d1'], task['D0'], task['D2']
        qd0 = _charges('qa', d0, given, rng); qd1 = _charges('qb', d1, given, rng)
        qD = [_charges('ql', D0, given, rng), _charges('qr', D2, given, rng)]
        mask = np.add.outer(np.add.outer(np.add.outer(qd0, qd1).reshape(-1), qD[0]), -qD[1])
        A = np.where(mask == 0, rng.standard_normal(mask.shape), 0.0)
        A_ = A.copy()
        tol = float(given.get('tol', rng.choice([0.0, 0.1, 0.5])))
        B0, B1, qb = split_mps_tensor(A, qd0, qd1, qD, task['distr'], tol=tol)
        if focus == 'C02':
            if not isinstance(qb, np.ndarray) or len(qb) != B0.shape[2] or len(qb) != B1.shape[1]:
                fails.append('split: len(qbond) does not match the new bond dimension')
            else:
                fails += qsparse_fail(B0, [qd0, qD[0], -qb], 'split.A0') + qsparse_fail(B1, [qd1, qb, -qD[1]], 'split.A1')
        elif not np.array_equal(A, A_):
            fails.append('split_mps_tensor modified its argument')
        return fails
    elif op == 'from_vector':
        d, n = task['d'], task['L']
        v = rng.standard_normal(d ** n); v_ = v.copy()
        tol = float(given.get('tol', rng.choice([0.0, 0.1])))
        psi = ptn.MPS.from_vector(d, n, v, tol=tol)
        results = [(psi, 'mps', 'from_vector')]
        if focus == 'C19' and not np.array_equal(v, v_):
            fails.append('from_vector modified its argument')
        if task.get('followup') == 'orthonormalize':
            psi.orthonormalize(mode='left')
        elif task.get('followup') == 'add':
            results.append((psi + psi, 'mps', 'from_vector + from_vector'))
    elif op in ('tdvp', 'dmrg'):
        d, P, PW = task['d'], task['D'], task['DW']
        qd, (qD,) = _mk_charges(task, d, [P], given, rng)
        psi = _rand_obj(rng, 'mps', qd, qD)
        qDW = [np.array([0])] + [_charges(f'qW{i}', PW[i], given, rng) for i in range(1, len(PW) - 1)] + [np.array([0])]
        H = _rand_obj(rng, 'mpo', qd.copy(), qDW, real=bool(rng.integers(0, 2)))      # real and complex Hamiltonian tensors
        snap = _snapshot([H])
        old = (psi.qD[0].copy(), psi.qD[-1].copy()); n0 = float(np.linalg.norm(_dense(psi, 'mps')))
        if n0 == 0:
            return []
        with warnings.catch_warnings():
            warnings.simplefilter('ignore')
            if op == 'tdvp':
                if task['variant'] == 'single':
                    EV.integrate_local_singlesite(H, psi, 0.1j, int(task.get('nsteps', 1)), numiter_lanczos=4)
                else:
                    EV.integrate_local_twosite(H, psi, 0.1j, int(task.get('nsteps', 1)), numiter_lanczos=4, tol_split=float(given.get('tolsplit', 0.0)))
            else:
                # DMRG needs a Hermitian operator for a meaningful Lanczos run; structural properties do not depend on it
                if task['variant'] == 'single':
                    MI.calculate_ground_state_local_singlesite(H, psi, int(task.get('nsteps', 1)), numiter_lanczos=4)
                else:
                    MI.calculate_ground_state_local_twosite(H, psi, int(task.get('nsteps', 1)), numiter_lanczos=4, tol_split=float(given.get('tolsplit', 0.0)))
        results = [(psi, 'mps', op)]; untouched = ([H], snap); boundary = (psi, old, n0); pure = False
    elif op == 'hamiltonian':
        model, L = task['model'], task['L']
        if model in ('molecular', 'spin_molecular'):
            tk = rng.standard_normal((L, L)); vi = rng.standard_normal((L, L, L, L)); t_, v_ = tk.copy(), vi.copy()
            f = ptn.molecular_hamiltonian_mpo if model == 'molecular' else ptn.spin_molecular_hamiltonian_mpo
            x = f(tk, vi, optimize=task['optimize'])
            if focus == 'C19' and (not np.array_equal(tk, t_) or not np.array_equal(vi, v_)):
                fails.append('coefficient tensors were modified')
        elif model == 'linear_fermionic':
            c = rng.standard_normal(L) + 1j * rng.standard_normal(L); c_ = c.copy()
            x = ptn.linear_fermionic_mpo(c, task.get('ftype', 'c'))
            if focus == 'C19' and not np.array_equal(c, c_):
                fails.append('coefficient vector was modified')
        else:
            p = [float(v) for v in rng.standard_normal(3)]
            x = {'ising': lambda: ptn.ising_mpo(L, *p), 'heisenberg_xxz': lambda: ptn.heisenberg_xxz_mpo(L, *p),
                 'heisenberg_xxz_spin1': lambda: ptn.heisenberg_xxz_spin1_mpo(L, *p), 'bose_hubbard': lambda: ptn.bose_hubbard_mpo(task.get('d') or 3, L, *p),
                 'fermi_hubbard': lambda: ptn.fermi_hubbard_mpo(L, *p)}[model]()
        results = [(x, 'mpo', model)]
    elif op == 'scalars':
        from pytenet import operation as OP
        L, d = task['L'], task['d']
        P = (1,) + (2,) * (L - 1) + (1,)
        qd, (q0, q1, q2) = _mk_charges(task, d, [P, P, P], given, rng)
        psi = _rand_obj(rng, 'mps', qd, q0); chi = _rand_obj(rng, 'mps', qd.copy(), q1); H = _rand_obj(rng, 'mpo', qd.copy(), q2)
        snap = _snapshot([psi, chi, H])
        OP.vdot(chi, psi); OP.operator_average(psi, H); OP.operator_inner_product(chi, H, psi); OP.operator_density_average(H, H)
        psi.as_vector(); H.as_matrix(); OP.compute_right_operator_blocks(psi, H)
        if not _same([psi, chi, H], snap):
            fails.append('a scalar-valued operation / dense conversion modified its arguments')
        return fails
    elif op == 'identity':
        qd = _charges('qd', task['d'], given, rng); qd_ = qd.copy()
        x = ptn.MPO.identity(qd, task['L'], scale=2.0)
        results = [(x, 'mpo', 'identity')]
        if focus == 'C19':
            x.zero_qnumbers()
            if not np.array_equal(qd, qd_):
                fails.append('identity MPO shares qd with its argument')
    else:
        raise RuntimeError(f'harness error: no concrete driver for op {op}')

    if focus == 'C02':
        for (x, kind, name) in results:
            fails += _invariant(x, kind, name)
        if boundary is not None and not fails:
            x, old, n0 = boundary
            if n0 > 1e-12 and (not np.array_equal(x.qD[0], old[0]) or not np.array_equal(x.qD[-1], old[1])):
                fails.append('leading/trailing bond quantum number of a non-zero state changed')
    else:
        if untouched:
            objs, snap = untouched
            if not _same(objs, snap):
                fails.append(f'{op} modified an object it must not touch')
        if pure and operands:
            for (res, kind, name) in results:
                sh = _shares(res, operands)
                if sh:
                    fails.append(sh)
                _mutate_result(res)
            objs, snap = untouched
            if not _same(objs, snap):
                fails.append(f'mutating the result of {op} changed an operand (shared state)')
    return fails


@check('op_step')
def check_op_step(inp):
    task = inp['task']; focus = inp.get('focus', 'C02')
    given = inp.get('charges') or {}
    fails = []
    for rep in range(8 if not given else 3):
        rng = np.random.default_rng(1000 * int(inp.get('seed', 0)) + rep)
        try:
            f = _op_once(task, given, rng, focus)
        except RuntimeError as e:
            if 'harness error' in str(e):
                print(e); sys.exit(3)
            raise
        except Exception as e:
            import traceback
            tb = traceback.extract_tb(e.__traceback__)[-1]
            f = [f'{task["op"]} raised {type(e).__name__}: {e} (at {tb.name}:{tb.lineno})']
        if f:
            fails += f
            break
    return fails


@check('graph_alias')
def check_graph_alias(inp):
    import pytenet as ptn
    from pytenet.opchain import OpChain
    from pytenet.opgraph import OpGraph
    fails = []
    if inp['op'] == 'from_opchains':
        chains = [OpChain(c['oids'], c['qnums'], c['coeff'], c['istart']) for c in inp['chains']]
        before = [(list(c.oids), list(c.qnums), c.coeff, c.istart) for c in chains]
        try:
            OpGraph.from_opchains(chains, inp['L'], int(inp.get('oid_identity', 0)))
        except Exception:
            return []
        if before != [(list(c.oids), list(c.qnums), c.coeff, c.istart) for c in chains]:
            fails.append('from_opchains modified the chains it was given')
    else:
        g = _graph_from_json(inp['graph'])
        for n in g.nodes.values():
            n.qnum = 0
        rng = np.random.default_rng(3)
        opmap = {0: rng.standard_normal((2, 2)), 1: rng.standard_normal((2, 2))}
        o0 = {k: v.copy() for k, v in opmap.items()}
        qd = np.zeros(2, dtype=int)
        before = _graph_dump(g)
        try:
            mpo = ptn.MPO.from_opgraph(qd, g, opmap, compute_nid_map=True)
        except Exception:
            return []
        if _graph_dump(g) != before or any(not np.array_equal(opmap[k], o0[k]) for k in opmap):
            fails.append('from_opgraph modified the graph or the operator map')
        for a in mpo.A:
            a.reshape(-1)[0] = 31337
        mpo.zero_qnumbers(); mpo.qd += 1
        if any(not np.array_equal(opmap[k], o0[k]) for k in opmap) or list(qd) != [0, 0]:
            fails.append('mutating the MPO changed the operator map / qd argument')
    return fails


# ------------------------------------------------------------------------------------------- C20

@check('opchains_c20')
def check_opchains_c20(inp):
    from pytenet.opchain import OpChain
    from pytenet.opgraph import OpGraph
    from refs import words as W
    chains = [OpChain(c['oids'], c['qnums'], c['coeff'], c['istart']) for c in inp['chains']]
    nnz = sum(1 for c in chains if c.coeff != 0)
    if nnz == 0:
        return []
    try:
        g = OpGraph.from_opchains(chains, inp['L'], int(inp.get('oid_identity', 0)))
        widths = W.layer_widths(g)
    except Exception:
        return []      # failures of the construction itself belong to C05
    if any(w > nnz for w in widths):
        return [f'layer widths {widths} exceed the number of chains with non-zero coefficient ({nnz})']
    return []


@check('graph_c20')
def check_graph_c20(inp):
    from refs import words as W
    op = inp['op']
    g = _graph_from_json(inp['graph'])
    if not g.is_consistent():
        return []
    w0 = W.layer_widths(g)
    try:
        if op == 'simplify':
            g.simplify()
        elif op == 'seq2':
            g.simplify(); g.flip(); g.simplify(); g.flip()
        elif op == 'merge':
            g.merge_edges(inp['eid1'], inp['eid2'], inp['direction'])
        elif op == 'add':
            other = _graph_from_json(inp['other'])
            wo = W.layer_widths(other)
            g.add(other)
            w0 = [a + b for a, b in zip(w0, wo)]; w0[0] = w0[-1] = 1
        w1 = W.layer_widths(g)
    except Exception:
        return []      # belongs to C16
    if len(w1) != len(w0) or any(a > b for a, b in zip(w1, w0)):
        return [f'a layer width increased: {w0} -> {w1}']
    return []


@check('schmidt_rank')
def check_schmidt_rank(inp):
    """bond dimension at every cut equals the operator Schmidt rank of the dense operator (numerical SVD rank)"""
    import pytenet as ptn
    model, L, d, p = inp['model'], inp['L'], inp['d'], inp['params']
    try:
        if model == 'ising':
            mpo = ptn.ising_mpo(L, *p)
        elif model == 'heisenberg_xxz':
            mpo = ptn.heisenberg_xxz_mpo(L, *p)
        elif model == 'heisenberg_xxz_spin1':
            mpo = ptn.heisenberg_xxz_spin1_mpo(L, *p)
        elif model == 'bose_hubbard':
            mpo = ptn.bose_hubbard_mpo(d, L, *p)
        elif model == 'fermi_hubbard':
            mpo = ptn.fermi_hubbard_mpo(L, *p)
        elif model == 'linear_fermionic':
            mpo = ptn.linear_fermionic_mpo(p, inp.get('ftype', 'c'))
        elif model == 'molecular':
            mpo = ptn.molecular_hamiltonian_mpo(np.array(p[0]), np.array(p[1]), optimize=True)
        else:
            return []
        M = mpo.as_matrix()
    except Exception:
        return []
    fails = []
    T = np.asarray(M).reshape((d,) * (2 * L))      # (s_1..s_L, t_1..t_L)
    for cut in range(1, L):
        perm = list(range(cut)) + list(range(L, L + cut)) + list(range(cut, L)) + list(range(L + cut, 2 * L))
        R = T.transpose(perm).reshape((d ** (2 * cut), d ** (2 * (L - cut))))
        sv = np.linalg.svd(R, compute_uv=False)
        rank = int(np.sum(sv > 1e-10 * max(1.0, sv[0]))) if len(sv) else 0
        if mpo.bond_dims[cut] != rank:
            fails.append(f'{model} L={L}: bond dimension {mpo.bond_dims[cut]} at cut {cut} != operator Schmidt rank {rank}')
    return fails


@check('molecular_gauge')
def check_molecular_gauge(inp):
    import pytenet as ptn
    L, i = inp['L'], inp['i']
    u2 = np.array(inp['u'], dtype=complex)
    tk = arr(inp['tkin']); vi = arr(inp['vint'])
    u = np.identity(L, dtype=complex); u[i:i + 2, i:i + 2] = u2
    try:
        tk_r = np.einsum(u, (2, 0), u.conj(), (3, 1), tk, (2, 3), (0, 1))
        vi_r = np.einsum(u, (4, 0), u, (5, 1), u.conj(), (6, 2), u.conj(), (7, 3), vi, (4, 5, 6, 7), (0, 1, 2, 3))
        h = ptn.molecular_hamiltonian_mpo(tk, vi, optimize=False)
        h_r = ptn.molecular_hamiltonian_mpo(tk_r, vi_r, optimize=False)
        h.A[i] = np.copy(h_r.A[i]); h.A[i + 1] = np.copy(h_r.A[i + 1])
        v_l, v_r = ptn.molecular_hamiltonian_orbital_gauge_transform(h, u2, i)
        h.A[i] = np.einsum(v_l, (2, 4), h.A[i], (0, 1, 4, 3), (0, 1, 2, 3))
        h.A[i + 1] = np.einsum(v_r, (3, 4), h.A[i + 1], (0, 1, 2, 4), (0, 1, 2, 3))
        M, Mr = h.as_matrix(), h_r.as_matrix()
    except Exception as e:
        return [f'gauge transform raised {type(e).__name__}: {e}']
    if not close(M, Mr, float(np.max(np.abs(Mr)))):
        return ['gauge-transformed MPO differs from the MPO of the rotated coefficients']
    return []


@check('opgraph_mpo')
def check_opgraph_mpo(inp):
    import pytenet as ptn
    from refs import words as W
    g = _graph_from_json(inp['graph'])
    for n in g.nodes.values():
        n.qnum = 0
    if not g.is_consistent():
        return []
    rng = np.random.default_rng(7)
    opmap = {0: rng.standard_normal((2, 2)), 1: rng.standard_normal((2, 2))}
    words = W.graph_words(g)
    try:
        mpo = ptn.MPO.from_opgraph([0, 0], g, opmap, compute_nid_map=True)
        M = mpo.as_matrix()
    except Exception as e:
        return [f'from_opgraph raised {type(e).__name__}: {e}']
    ref = W.words_matrix(words, opmap, 2).astype(complex)
    fails = []
    if not close(M, ref, float(np.max(np.abs(ref)))):
        fails.append('MPO matrix differs from the operator denoted by the graph')
    if set(mpo.nid_map.keys()) != set(g.nodes.keys()):
        fails.append('nid_map does not cover exactly the graph nodes')
    if mpo.bond_dims != W.layer_widths(g):
        fails.append('bond dimensions differ from the layer widths')
    return fails

# -------------------------------------------------------------------------------------------

def main():
    path = sys.argv[1]
    body = json.load(open(path))
    kind = body['kind']
    inputs = decode(body['inputs'])
    warnings.simplefilter('ignore')
    try:
        fails = CHECKS[kind](inputs)
    except Exception as e:        # a crash of the checker itself is not a reproduction
        import traceback
        traceback.print_exc()
        print(f'replay {path}: internal error of the concrete checker ({type(e).__name__}: {e})')
        sys.exit(3)
    if fails:
        print(f'replay {path}: property {body.get("property")} violated on the real code ({kind}):')
        for f in fails[:10]:
            print('   ', f)
        sys.exit(1)
    print(f'replay {path}: property holds on this input ({kind})')
    sys.exit(0)


if __name__ == '__main__':
    main()
