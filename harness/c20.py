"""
C20  Compiled Hamiltonian MPOs are as compact as the operator allows.

Three parts, each decided on symbolic executions of the real code:
  (a) built-in models with GENERIC symbolic parameters: at every cut the MPO bond dimension D equals the operator
      Schmidt rank of the dense operator.  rank <= D holds by construction of an MPO; rank >= D is certified by a
      D x D minor of the reshaped symbolic operator matrix whose determinant polynomial z3 (QF_NRA) shows to be
      non-zero at some parameter point -- hence non-zero for generic parameters.  L <= 4 (d = 2), L <= 3 (d = 3, 4);
  (b) arbitrary chain lists (the C05 skeleton space, symbolic coefficients): every layer width of the compiled graph is
      at most the number of chains with non-zero coefficient on that path;
  (c) simplify / merge_edges / add never increase a layer width (the C16 graph space).
"""
import itertools
from fractions import Fraction
import numpy as np
import z3

from harness.common import *
from harness import concrete, c05, c16
from symx import shims, prover, runner
from symx.engine import DeadPath
from symx.poly import Sym, S, VARS, VKIND, VROLE, peval, pvars
import pytenet as ptn

PID = 'C20'


def tasks(tier, seed):
    ts = []
    q = tier == 'quick'
    for model, Ls, d in (('ising', (2, 3, 4), 2), ('heisenberg_xxz', (2, 3, 4), 2), ('heisenberg_xxz_spin1', (2, 3), 3),
                         ('bose_hubbard', (2, 3), 3), ('fermi_hubbard', (2, 3) if not q else (2,), 4), ('linear_fermionic', (2, 3, 4), 2),
                         ('molecular', (2, 3), 2)):
        for L in Ls:
            ts.append(dict(name=f'rank_{model}_L{L}', kind='rank', model=model, L=L, d=d))
    if not q:
        ts.append(dict(name='rank_ising_L5', kind='rank', model='ising', L=5, d=2))
        ts.append(dict(name='rank_heisenberg_xxz_L5', kind='rank', model='heisenberg_xxz', L=5, d=2))
    for t in c05.tasks(tier, seed):
        if t['kind'] == 'chains' and t.get('charges'):
            t = dict(t); t['name'] = 'c20_' + t['name']; t['kind20'] = 'chains'
            ts.append(t)
    for t in c16.tasks(tier, seed):
        if t['op'] in ('simplify', 'merge', 'seq2') or (t['op'] == 'add' and t.get('scheme') in ('collide', 'shifted')):
            t = dict(t); t['name'] = 'c20_' + t['name']; t['kind20'] = 'graph'
            ts.append(t)
    return ts


def required_marks(tier):
    return ['rank_certified', 'chain_width_bound_checked', 'simplify_width_checked', 'minor_nonzero_by_solver']


def det_sym(M):
    """determinant of a small square object matrix by Laplace expansion with memoisation over column subsets"""
    n = M.shape[0]
    memo = {}

    def rec(r, cols):
        if r == n:
            return Sym({(): 1})
        key = (r, cols)
        if key in memo:
            return memo[key]
        tot = Sym()
        sign = 1
        for k, c in enumerate(cols):
            x = M[r, c]
            if not is_structural_zero(x):
                sub = rec(r + 1, cols[:k] + cols[k + 1:])
                tot = tot + (S(x) * sub if sign == 1 else -(S(x) * sub))
            sign = -sign
        memo[key] = tot
        return tot
    return rec(0, tuple(range(n)))


def build_model(eng, task):
    model, L, d = task['model'], task['L'], task['d']
    if model == 'linear_fermionic':
        params = [eng.sym(f'f{i}') for i in range(L)]
        for p in params:
            eng.assume(p != 0)
        return ptn.linear_fermionic_mpo(params, 'c'), params, dict(model=model, L=L, d=d, params=params, ftype='c')
    if model == 'molecular':
        from harness.c07 import make_coeffs, assume_generic
        tk, vi = make_coeffs(eng, L, 'dense', 0)
        assume_generic(eng, 'spinless', tk, vi)
        return ptn.molecular_hamiltonian_mpo(tk, vi, optimize=True), list(tk.reshape(-1)) + list(vi.reshape(-1)), \
            dict(model=model, L=L, d=d, params=[tk.copy(), vi.copy()])
    from harness.c06 import MODELS
    spec = MODELS[model]
    params = [eng.sym(n) for n in spec['params']]
    for p in params:
        eng.assume(p != 0)
    return spec['fn'](L, params, d), params, dict(model=model, L=L, d=d, params=params)


def path_rank(eng, acc, task):
    model, L, d = task['model'], task['L'], task['d']
    try:
        mpo, params, inputs = build_model(eng, task)
        M = mpo.as_matrix()
    except (AssertionError, ValueError, KeyError, TypeError, IndexError):
        acc.inc('construction_failed_not_judged')      # belongs to C06 / C07
        return
    n = d ** L
    T = np.asarray(M, dtype=object).reshape((d,) * (2 * L))
    rng = np.random.default_rng(7)
    ivars = sorted(set().union(*[pvars(S(x).t) | (pvars(S(x).u) if S(x).u else set()) for x in M.reshape(-1)])) if M.size else []
    point = {v: Fraction(int(rng.integers(1, 30)) * int(rng.choice((-1, 1))), int(rng.integers(1, 7))) for v in range(len(VARS))}
    fails = []
    for cut in range(1, L):
        D = mpo.bond_dims[cut]
        perm = list(range(cut)) + list(range(L, L + cut)) + list(range(cut, L)) + list(range(L + cut, 2 * L))
        R = T.transpose(perm).reshape((d ** (2 * cut), d ** (2 * (L - cut))))
        Rn = np.zeros(R.shape)
        for idx in np.ndindex(*R.shape):
            x = R[idx]
            Rn[idx] = float(peval(S(x).t, point)) if isinstance(x, Sym) else float(x)
        sv = np.linalg.svd(Rn, compute_uv=False)
        rank_num = int(np.sum(sv > 1e-9 * max(1.0, sv[0]))) if len(sv) else 0
        if rank_num < D:
            fails.append(f'bond dimension {D} at cut {cut} exceeds the operator Schmidt rank {rank_num} (at a generic parameter point)')
            continue
        if rank_num > D:
            raise runner.HarnessError('numeric rank exceeds the MPO bond dimension: dense contraction inconsistent')
        if D > 6:
            acc.inc('cuts_skipped_minor_too_large')
            continue
        # pick a numerically non-singular D x D minor, then let the solver show that its determinant polynomial is not identically zero
        from scipy.linalg import qr as sqr
        _, _, pc = sqr(Rn, pivoting=True)
        cols = sorted(pc[:D])
        _, _, pr = sqr(Rn[:, cols].T, pivoting=True)
        rows = sorted(pr[:D])
        sub = np.empty((D, D), dtype=object)
        for a, r in enumerate(rows):
            for b, c in enumerate(cols):
                sub[a, b] = R[r, c]
        det = det_sym(sub)
        acc.inc('minors_evaluated')
        if det.is_zero():
            fails.append(f'selected {D}x{D} minor at cut {cut} vanishes identically')
            continue
        s = z3.Solver()
        s.set('timeout', 20000)
        zv = {v: z3.Real('x!' + VARS[v]) for v in pvars(det.t)}
        expr = z3.RealVal(0)
        for mono, c in det.t.items():
            t = z3.RealVal(str(c))
            for v, e in mono:
                for _ in range(e):
                    t = t * zv[v]
            expr = expr + t
        s.add(expr != 0)
        r = s.check()
        acc.inc('vc_queries'); acc.inc('vc_goals')
        if r == z3.sat:
            eng.mark('minor_nonzero_by_solver')
            acc.inc('vc_minor_nonzero_sat')
        else:
            fails.append(f'solver could not exhibit a parameter point with non-vanishing {D}x{D} minor at cut {cut} ({r})')
    eng.mark('rank_certified')
    acc.inc('nontrivial_paths')
    if acc.get('#samples') < 4:
        acc.add('samples', dict(task=task['name'], bond_dims=mpo.bond_dims))
    if fails:
        candidate(eng, acc, task, 'schmidt_rank', f'c20:rank:{model}', '; '.join(fails), inputs)


def path(eng, acc, task):
    if task.get('kind20') == 'chains':
        return c05.path(eng, acc, task, focus='C20')
    if task.get('kind20') == 'graph':
        return c16.path(eng, acc, task, focus='C20')
    return path_rank(eng, acc, task)


def validate(seed, tier):
    rng = np.random.default_rng(seed)
    n = 0
    for model, L, d in (('ising', 4, 2), ('heisenberg_xxz', 4, 2), ('heisenberg_xxz_spin1', 3, 3), ('bose_hubbard', 3, 3), ('fermi_hubbard', 2, 4)):
        runner.concrete_check('schmidt_rank', dict(model=model, L=L, d=d, params=[float(x) for x in rng.standard_normal(3)]))
        n += 1
    return dict(concrete_inputs_checked=n)


def evidence(tier, seed, total, per_task, val):
    ts = tasks(tier, seed)
    return dict(
        level='other',
        coverage=dict(
            explanation='(a) built-in models built symbolically with generic parameters; for every cut a D x D minor of the reshaped symbolic dense '
                        'operator is selected (numerically, at a rational point) and z3 QF_NRA exhibits a parameter point where its determinant '
                        'polynomial does not vanish => operator Schmidt rank >= D generically, and <= D by the MPO form; (b)/(c) compactness VCs on '
                        'the symbolic executions of from_opchains (C05 space) and simplify / merge / add (C16 space)',
            functions_encoded=['all Hamiltonian constructors (chain, automaton, optimised molecular path)', 'OpGraph.from_opchains', 'minimum_vertex_cover',
                               'OpGraph.simplify', 'OpGraph.merge_edges', 'OpGraph.add', 'MPO.from_opgraph', 'MPO.as_matrix'],
            bounds=dict(rank_tasks=[t['name'] for t in ts if t.get('kind') == 'rank'],
                        chain_and_graph_tasks=sum(1 for t in ts if t.get('kind20')), note='chain / graph tasks are those of C05 / C16 (same bounds)'),
            stubs=[],
            outside=['Schmidt-rank optimality beyond dense reach (L > 4 for d = 2, L > 3 for d = 3, 4)', 'spin-orbital molecular model (4^L)',
                     'non-generic parameter values (measure zero)'],
            distinct_nontrivial=int(total.get('nontrivial_paths')),
            rule='one case = (model, L) with all cuts, or one feasible path of the C05 / C16 exploration',
            minors_evaluated=int(total.get('minors_evaluated')),
            cuts_skipped_minor_too_large=int(total.get('cuts_skipped_minor_too_large')),
            obligations=int(total.get('vc_goals') + total.get('c20_width_checks')),
            vc_results={k: int(v) for k, v in total.c.items() if k.startswith('vc_')},
            samples=total.l.get('samples', []),
            exhaustive=False,
        ),
        assumptions=IDEALISATIONS[:1] + ['an MPO with bond dimension D at a cut has operator Schmidt rank <= D at that cut (standard)',
                                        'a polynomial that is non-zero at one point is non-zero for generic parameters'],
    )


if __name__ == '__main__':
    runner.main('harness.c20')
