"""
C03  MPS/MPO arithmetic agrees with dense linear algebra.

The real add_mps / add_mpo / multiply_mpo / apply_operator / MPO.identity / as_vector / as_matrix(dense) /
from_vector(tol=0) / split_mps_tensor(tol=0) + merge run on symbolic tensors; the dense form of the result is
compared with the same expression evaluated on the operands' dense forms (explicit-loop oracle) as polynomial
identities in all tensor entries (identities modulo the SVD contract for from_vector / split).
"""
import itertools
import numpy as np

from harness.common import *
from harness import concrete, tn
from refs import dense as DN
from symx import shims, prover, runner
from symx.engine import DeadPath, run_concrete
from symx.poly import Sym, S
import pytenet as ptn
from pytenet.mps import add_mps, merge_mps_tensor_pair, split_mps_tensor
from pytenet.mpo import add_mpo, multiply_mpo
from pytenet.operation import apply_operator

PID = 'C03'


def profiles(L, Dmax):
    """all bond profiles (1, D1, ..., D_{L-1}, 1) with D_i <= Dmax"""
    return [(1,) + p + (1,) for p in itertools.product(range(1, Dmax + 1), repeat=L - 1)]


def tasks(tier, seed):
    ts = []
    q = tier == 'quick'
    # zero charges: pure polynomial identities, all independent bond profiles
    for op in ('add_mps', 'add_mpo', 'multiply_mpo', 'apply_operator'):
        for L in (1, 2, 3):
            dmax = 2 if (L < 3 or op in ('add_mps', 'apply_operator')) else (1 if q else 2)
            for cplx in (False, True):
                if cplx and (q and L == 3):
                    continue
                ts.append(dict(name=f'{op}_L{L}_zero_{"c" if cplx else "r"}', op=op, L=L, d=2, Dmax=dmax, qmode='zero', cplx=cplx, cut=3))
    # symbolic charges: every sparsity layout is a path; result charges checked
    for op in ('add_mps', 'add_mpo', 'multiply_mpo', 'apply_operator'):
        for L in (1, 2) if q else (1, 2, 3):
            ts.append(dict(name=f'{op}_L{L}_symq', op=op, L=L, d=2, Dmax=(2 if L < 3 and op in ('add_mps',) else 1) if op != 'add_mps' or L == 3 else 2,
                           qmode='sym', cplx=False, cut=8, fixprof=True))
    # the very same object on both sides: psi + psi, psi - psi, op @ op
    for op in ('add_mps', 'add_mpo', 'multiply_mpo'):
        for L in (1, 2):
            ts.append(dict(name=f'{op}_L{L}_same', op=op, L=L, d=2, Dmax=2, qmode='zero', cplx=False, cut=3, same=True))
    for L in (1, 2, 3):
        ts.append(dict(name=f'identity_L{L}', op='identity', L=L, d=2, qmode='sym', cplx=False))
    ts.append(dict(name='identity_L2_d3', op='identity', L=2, d=3, qmode='sym', cplx=False))
    for L in (1, 2, 3):
        ts.append(dict(name=f'dense_forms_L{L}', op='dense_forms', L=L, d=2, Dmax=2, qmode='zero', cplx=True, cut=3))
    ts.append(dict(name='chained_L2', op='chained', L=2, d=2, Dmax=2 if not q else 1, qmode='zero', cplx=False, cut=3))
    # modulo the SVD contract
    # (n = 3: three nested SVD contracts; the exactness identity is not provable within 5 multiplier rounds / 6e4 products -> not claimed)
    for nsites in (1, 2):
        ts.append(dict(name=f'from_vector_n{nsites}', op='from_vector', L=nsites, d=2, qmode='zero', cplx=False, cut=6))
    for distr in ('left', 'right', 'sqrt'):
        ts.append(dict(name=f'split_merge_{distr}_zero', op='split', distr=distr, d0=2, d1=2, D0=1, D2=1, qmode='zero', cplx=False, cut=6))
        ts.append(dict(name=f'split_merge_{distr}_D2', op='split', distr=distr, d0=2, d1=1, D0=1, D2=2, qmode='zero', cplx=False, cut=6))
        ts.append(dict(name=f'split_merge_{distr}_symq', op='split', distr=distr, d0=2, d1=1, D0=1, D2=2, qmode='sym', cplx=False, cut=8))
    return ts


def required_marks(tier):
    return ['same_object_operands', 'L1_single_site', 'L2_no_intermediate', 'bond_dim_1', 'distinct_profiles', 'sparse_layout_nontrivial', 'svd_contract_used',
            'complex_entries']


def choose_profile(eng, task, tag, L):
    if task.get('fixprof'):
        return (1,) + (task['Dmax'],) * (L - 1) + (1,)
    profs = profiles(L, task['Dmax'])
    return profs[eng.choose(len(profs), f'prof{tag}')]


def operands(eng, task, kinds):
    """build operands with shared qd and equal boundary charges"""
    L, d = task['L'], task['d']
    qm = task['qmode']
    qd = tn.charges(eng, 'qd', d, qm)
    ql = tn.charges(eng, 'ql', 1, qm); qr = tn.charges(eng, 'qr', 1, qm)
    out = []
    profs = []
    for k, kind in enumerate(kinds):
        P = choose_profile(eng, task, k, L)
        profs.append(P)
        if kind == 'mpo' and qm == 'sym':
            # independent boundary charges for the operator in products; equal for sums (set by caller)
            pass
        qD = [ql] + [tn.charges(eng, f'q{k}_{i}', P[i], qm) for i in range(1, L)] + [qr]
        if kind == 'mps':
            out.append(tn.sym_mps(eng, f'A{k}_', d, P, qd, qD, task['cplx']))
        else:
            out.append(tn.sym_mpo(eng, f'W{k}_', d, P, qd, qD, task['cplx']))
    if len(set(profs)) > 1:
        eng.mark('distinct_profiles')
    if any(1 in P[1:-1] for P in profs):
        eng.mark('bond_dim_1')
    if L == 1:
        eng.mark('L1_single_site')
    if L == 2:
        eng.mark('L2_no_intermediate')
    if task['cplx']:
        eng.mark('complex_entries')
    if qm == 'sym' and any(any(is_structural_zero(x) for x in a.reshape(-1)) and any(not is_structural_zero(x) for x in a.reshape(-1)) for o in out for a in o.A):
        eng.mark('sparse_layout_nontrivial')
    return out


def path(eng, acc, task):
    op = task['op']
    shims.reset_logs()
    fails = []
    inputs = dict(op=op)
    try:
        if op in ('add_mps', 'add_mpo'):
            kind = 'mps' if op == 'add_mps' else 'mpo'
            x0, x1 = operands(eng, task, [kind, kind])
            if task.get('same'):
                x1 = x0; inputs['same'] = True; eng.mark('same_object_operands')
            alpha = eng.csym('alpha') if task['cplx'] else eng.sym('alpha')
            mode = eng.choose(3, 'form')       # +, -, explicit alpha
            inputs.update(x0=tn.mps_json(x0), x1=tn.mps_json(x1), alpha=alpha, form=mode)
            snap = snapshot(x0.A + x1.A + [x0.qd, x1.qd] + x0.qD + x1.qD)
            if mode == 0:
                res = x0 + x1; a = 1
            elif mode == 1:
                res = x0 - x1; a = -1
            else:
                res = (add_mps if kind == 'mps' else add_mpo)(x0, x1, alpha); a = alpha
            if kind == 'mps':
                v0, v1, vr = tn.dense_vec(x0), tn.dense_vec(x1), tn.dense_vec(res)
                goals = [(S(r), S(p) + a * S(q_)) for r, p, q_ in zip(vr, v0, v1)]
            else:
                M0, M1, Mr = tn.dense_mat(x0), tn.dense_mat(x1), tn.dense_mat(res)
                goals = [(S(Mr[i, j]), S(M0[i, j]) + a * S(M1[i, j])) for i in range(Mr.shape[0]) for j in range(Mr.shape[1])]
            fails += tn.invariant_fails(res, kind, 'result')
            if not fails:
                fails += tn.sparsity_fails(eng, acc, res, kind, 'result')
            fails += aliasing_fails(res, [x0, x1], snap)
        elif op == 'multiply_mpo':
            x0, x1 = operands(eng, task, ['mpo', 'mpo'])
            if task.get('same'):
                x1 = x0; inputs['same'] = True; eng.mark('same_object_operands')
            inputs.update(x0=tn.mps_json(x0), x1=tn.mps_json(x1))
            snap = snapshot(x0.A + x1.A + [x0.qd, x1.qd] + x0.qD + x1.qD)
            res = x0 @ x1
            M0, M1, Mr = tn.dense_mat(x0), tn.dense_mat(x1), tn.dense_mat(res)
            P = tn.matmat(M0, M1)
            goals = [(S(Mr[i, j]), S(P[i, j])) for i in range(Mr.shape[0]) for j in range(Mr.shape[1])]
            fails += tn.invariant_fails(res, 'mpo', 'result')
            if not fails:
                fails += tn.sparsity_fails(eng, acc, res, 'mpo', 'result')
            fails += aliasing_fails(res, [x0, x1], snap)
        elif op == 'apply_operator':
            W_, psi = operands(eng, task, ['mpo', 'mps'])
            inputs.update(x0=tn.mps_json(W_), x1=tn.mps_json(psi))
            snap = snapshot(W_.A + psi.A + [W_.qd, psi.qd] + W_.qD + psi.qD)
            res = apply_operator(W_, psi)
            # outer bonds of the result have dimension 1 x 1 = 1
            M, v = tn.dense_mat(W_), tn.dense_vec(psi)
            vr = tn.dense_vec(res)
            goals = [(S(a), S(b)) for a, b in zip(vr, tn.matvec(M, v))]
            fails += tn.invariant_fails(res, 'mps', 'result')
            if not fails:
                fails += tn.sparsity_fails(eng, acc, res, 'mps', 'result')
            fails += aliasing_fails(res, [W_, psi], snap)
        elif op == 'identity':
            L, d = task['L'], task['d']
            qd = tn.charges(eng, 'qd', d, 'sym')
            scale = eng.sym('scale')
            inputs.update(qd=list(qd), L=L, scale=scale)
            res = ptn.MPO.identity(qd, L, scale=scale)
            Mr = tn.dense_mat(res)
            n = d ** L
            # the documented claim is for the default scale; for a symbolic per-site scale only proportionality to the
            # identity is asserted (off-diagonals vanish, all diagonal entries agree), not a particular power of `scale`
            Md = tn.dense_mat(ptn.MPO.identity(qd, L))
            goals = [(S(Md[i, j]), S(1 if i == j else 0)) for i in range(n) for j in range(n)]
            goals += [(S(Mr[i, j]), S(Mr[0, 0] if i == j else 0)) for i in range(n) for j in range(n)]
            if S(Mr[0, 0]).is_zero():
                fails.append('identity MPO with a symbolic (generically non-zero) scale is structurally the zero operator')
            fails += tn.invariant_fails(res, 'mpo', 'identity')
            if not fails:
                fails += tn.sparsity_fails(eng, acc, res, 'mpo', 'identity')
            if res.qd is qd:
                fails.append('identity MPO aliases the qd argument')
        elif op == 'dense_forms':
            W_, psi = operands(eng, task, ['mpo', 'mps'])
            inputs.update(x0=tn.mps_json(W_), x1=tn.mps_json(psi))
            v = psi.as_vector(); M = W_.as_matrix()
            vo, Mo = tn.dense_vec(psi), tn.dense_mat(W_)
            if len(v) != len(vo) or M.shape != Mo.shape:
                fails.append('dense shapes differ from d^L')
                goals = []
            else:
                goals = [(S(a), S(b)) for a, b in zip(v, vo)] + [(S(M[i, j]), S(Mo[i, j])) for i in range(M.shape[0]) for j in range(M.shape[1])]
        elif op == 'chained':
            A_, B_, C_, psi = operands(eng, task, ['mpo', 'mpo', 'mpo', 'mps'])
            inputs.update(x0=tn.mps_json(A_), x1=tn.mps_json(B_), x2=tn.mps_json(C_), x3=tn.mps_json(psi))
            res = apply_operator((A_ + B_) @ C_, psi)
            MA, MB, MC, v = tn.dense_mat(A_), tn.dense_mat(B_), tn.dense_mat(C_), tn.dense_vec(psi)
            S_ = np.empty(MA.shape, dtype=object)
            for idx in np.ndindex(*MA.shape):
                S_[idx] = MA[idx] + MB[idx]
            ref = tn.matvec(tn.matmat(S_, MC), v)
            goals = [(S(a), S(b)) for a, b in zip(tn.dense_vec(res), ref)]
        elif op == 'from_vector':
            n, d = task['L'], task['d']
            v = eng.sym_array('v', (d ** n,))
            inputs.update(d=d, nsites=n, v=list(v))
            psi = ptn.MPS.from_vector(d, n, v, tol=0)
            if any(s[0] == 'svd' for s in shims.STUB_LOG):
                eng.mark('svd_contract_used')
            fails += tn.invariant_fails(psi, 'mps', 'from_vector result')
            eng.promote_zeros()
            goals = [(S(a), S(b)) for a, b in zip(tn.dense_vec(psi), v)] if not fails else []
        elif op == 'split':
            d0, d1, D0, D2 = task['d0'], task['d1'], task['D0'], task['D2']
            qm = task['qmode']
            qd0 = tn.charges(eng, 'qa', d0, qm); qd1 = tn.charges(eng, 'qb', d1, qm)
            qD = [tn.charges(eng, 'ql', D0, qm), tn.charges(eng, 'qr', D2, qm)]
            qdm = tn.qsum([qd0, qd1]).reshape(-1)
            A = sparse_tensor(eng, 'A', (d0 * d1, D0, D2), [qdm, qD[0], -np.asarray(qD[1], dtype=object)], cplx=task['cplx'])
            inputs.update(A=A.copy(), qd0=list(qd0), qd1=list(qd1), qD=[list(qD[0]), list(qD[1])], distr=task['distr'])
            snap = snapshot([A])
            A0, A1, qb = split_mps_tensor(A, qd0, qd1, qD, task['distr'], tol=0)
            if any(s[0] == 'svd' for s in shims.STUB_LOG):
                eng.mark('svd_contract_used')
            eng.promote_zeros()
            Am = merge_mps_tensor_pair(A0, A1)
            if Am.shape != A.shape:
                fails.append(f'merged shape {Am.shape} != {A.shape}')
                goals = []
            else:
                goals = [(S(Am[idx]), S(inputs['A'][idx])) for idx in np.ndindex(*A.shape)]
            if len(qb) != A0.shape[2] or len(qb) != A1.shape[1]:
                fails.append('len(qbond) does not match the new bond dimension')
            else:
                fails += sparsity_vcs(eng, acc, A0, [np.asarray(qd0, dtype=object), np.asarray(qD[0], dtype=object), -np.asarray(qb, dtype=object)], 'A0')
                fails += sparsity_vcs(eng, acc, A1, [np.asarray(qd1, dtype=object), np.asarray(qb, dtype=object), -np.asarray(qD[1], dtype=object)], 'A1')
            if not unchanged(snap):
                fails.append('split_mps_tensor modified its argument')
        else:
            raise runner.HarnessError(f'unknown op {op}')
    except DeadPath:
        raise
    except Exception as e:
        reraise_internal(e)
        import traceback
        tb = traceback.extract_tb(e.__traceback__)[-1]
        candidate(eng, acc, task, 'arith', f'arith:{op}:raises:{type(e).__name__}@{tb.name}', repr(e), inputs)
        return
    rounds = (1, 2, 3) if op in ('from_vector', 'split') else (0,)
    if goals and prover.prove_escalating(eng, pairs=goals, rounds=rounds, acc=acc, label='vc_dense') != 'proved':
        fails.append(f'{op}: dense form of the result differs from the dense expression')
    acc.inc('nontrivial_paths')
    if acc.get('#samples') < 3 and task.get('L', 2) >= 2:
        acc.add('samples', sample(eng, task, dict(n_goals=len(goals), stubs=list(shims.STUB_LOG)[:4])))
    if fails:
        candidate(eng, acc, task, 'arith', f'arith:{op}:' + fails[0][:40], '; '.join(fails), inputs)


def aliasing_fails(res, operands_, snap):
    fails = []
    if not unchanged(snap):
        fails.append('an operand was modified')
    for o in operands_:
        for a in res.A:
            for b in o.A:
                if a is b or np.shares_memory(a, b):
                    fails.append('result tensor shares memory with an operand tensor')
        if res.qd is o.qd or np.shares_memory(res.qd, o.qd):
            fails.append('result.qd aliases an operand')
        for qa in res.qD:
            for qb in o.qD:
                if qa is qb or (qa.size and qb.size and np.shares_memory(qa, qb)):
                    fails.append('result.qD aliases an operand bond quantum number array')
    return fails[:3]


def validate(seed, tier):
    rng = np.random.default_rng(seed)
    n = 0
    for op in ('add_mps', 'add_mpo', 'multiply_mpo', 'apply_operator'):
        for L in (1, 2, 3):
            inp = concrete.random_arith_input(rng, op, L)
            runner.concrete_check('arith', inp)
            n += 1
            # dtype mechanics are erased by the symbolic encoding (object arrays); this sweep at least pushes real/complex
            # operand mixes and the sparse matrix form through the real code (sampling, reported as such)
            for real in ((True, False), (False, True), (True, True)):
                for _ in range(12):
                    runner.concrete_check('arith', concrete.random_arith_input(rng, op, L, real=real))
                    n += 1
    for L in (1, 2, 3, 4):
        for _ in range(3):
            inp = concrete.random_arith_input(rng, 'apply_operator', L, Dmax=3)
            inp['op'] = 'dense_forms'
            runner.concrete_check('arith', inp)
            n += 1
    # identity MPO with real, complex and integer scale factors and several physical dimensions (dtype mechanics, sampling)
    for L in (1, 2, 3):
        for scale in (1, 2, -0.5, 1j, 2 - 1j):
            runner.concrete_check('arith', dict(op='identity', qd=[int(x) for x in rng.integers(-1, 2, size=int(rng.integers(1, 4)))], L=L, scale=scale))
            n += 1
    # shimmed path vs plain NumPy on the real code
    qd = np.zeros(2, dtype=int)
    A = ptn.MPS(qd, [[0], [0, 0], [0]], fill='random', rng=rng); B = ptn.MPS(qd, [[0], [0], [0]], fill='random', rng=rng)
    ref = (A + B).as_vector()

    def shimmed(eng):
        a = ptn.MPS(qd, [[0], [0, 0], [0]], fill='postpone'); b = ptn.MPS(qd, [[0], [0], [0]], fill='postpone')
        a.A = [shims.to_object(x) for x in A.A]; b.A = [shims.to_object(x) for x in B.A]
        return shims.to_numeric((a + b).as_vector())
    got = run_concrete(shimmed)
    if not np.allclose(got, ref, atol=1e-12):
        raise runner.HarnessError('shimmed add_mps disagrees with plain NumPy')
    return dict(concrete_inputs_checked=n, shim_vs_numpy='agree')


def evidence(tier, seed, total, per_task, val):
    ts = tasks(tier, seed)
    return dict(
        level='other',
        coverage=dict(
            explanation='bounded symbolic execution of the real MPS/MPO arithmetic on dtype=object tensors of polynomial scalars; the '
                        'dense form of each result is compared entry by entry with the dense expression of the operands (explicit-loop '
                        'oracle) -- polynomial identities decided by z3 QF_LRA on the normal-form difference; from_vector / split+merge '
                        'identities hold modulo the SVD contract and are decided by linearised ideal membership; sparsity layouts under '
                        'symbolic charges are paths decided by z3 QF_LIA',
            functions_encoded=['add_mps', 'add_mpo', 'multiply_mpo', 'apply_operator', 'MPO.identity', 'MPS.as_vector', 'MPO.as_matrix(dense)',
                               'merge_mps_tensor_pair', 'merge_mpo_tensor_pair', 'MPS.from_vector', 'split_mps_tensor', 'split_matrix_svd',
                               'retained_bond_indices'],
            bounds=dict(tasks=sorted((t['op'], t.get('L'), t.get('Dmax'), t['qmode'], t.get('cplx')) for t in ts),
                        note='(op, L, max bond dimension per operand -- all independent profiles, charge mode, complex entries); d = 2'),
            stubs=['np.linalg.svd contract (from_vector, split)', 'np.linalg.norm contract', 'division -> Rabinowitsch inverse'],
            outside=['as_matrix(sparse_format=True): SciPy sparse matrices cannot hold symbols (dense = sparse sub-claim not decided)',
                     'physical dimension > 2 (3 for identity), bond dimensions > 2, L > 3'],
            distinct_nontrivial=int(total.get('nontrivial_paths')),
            rule='one case = one feasible path (operation x bond profiles x form x sparsity layout); every path issues the dense-identity VC',
            obligations=int(total.get('vc_goals')),
            vc_results={k: int(v) for k, v in total.c.items() if k.startswith('vc_') and k.split('_')[-1] in ('proved', 'trivial', 'unknown', 'unproved')},
            samples=total.l.get('samples', []),
            exhaustive=False,
        ),
        assumptions=IDEALISATIONS + ['SVD contract: U^H U = I, V V^H = I, U diag(s) V = A, s sorted descending and >= 0 (validated numerically)',
                                    'boundary bond quantum numbers of the two operands of a sum agree (documented precondition)'],
    )


if __name__ == '__main__':
    runner.main('harness.c03')
