"""
C19  Operands are never modified and results share no state with them.

Identity / aliasing monitors on the same symbolic executions as C02 (harness/ops.py) plus the scalar-valued
operations, dense conversion, decompositions and the graph constructors:
  * every operand array is snapshotted before the call (object arrays hold immutable scalars, so an elementwise
    identity comparison afterwards is exact: "bit-for-bit unchanged");
  * no array of a result shares memory with an operand array, no qd / qD array object is shared, no node / edge /
    id-list object of a result graph is reachable from an operand graph;
  * follow-up mutation of the result (zero_qnumbers, in-place tensor edit) leaves the operand snapshot intact;
  * the in-place algorithms (orthonormalize, compress, TDVP step, DMRG sweep, OpGraph.add) change only the object
    documented as overwritten -- never the Hamiltonian or the other graph.
Aliasing in NumPy code depends on the path (an "already sorted" branch skips a copying fancy-index), which is why
the monitors run on every charge pattern.
"""
import copy
import numpy as np

from harness.common import *
from harness import concrete, tn, ops, c02
from refs import words as W
from symx import shims, prover, runner, poly
from symx.engine import DeadPath
from symx.poly import Sym, S, SymDivisionByZero
import pytenet as ptn
import pytenet.bond_ops as bond_ops
from pytenet import operation as OP
from pytenet.opchain import OpChain
from pytenet.opgraph import OpGraph

PID = 'C19'


def tasks(tier, seed):
    ts = [t for t in ops.op_tasks(tier) if not (t['op'] == 'hamiltonian' and t['L'] > 2 and t.get('model') not in ('molecular', 'spin_molecular'))]
    for L in (1, 2, 3):
        ts.append(dict(name=f'scalars_L{L}_zeroq', op='scalars', L=L, d=2, qmode='zero', cut=8))
    ts.append(dict(name='scalars_L1_symq', op='scalars', L=1, d=2, cut=8))
    for (m, n) in ((2, 2), (2, 3)):
        ts.append(dict(name=f'decomp_qr_{m}x{n}', op='decomp', which='qr', m=m, n=n, cut=8))
        ts.append(dict(name=f'decomp_svd_{m}x{n}', op='decomp', which='svd', m=m, n=n, cut=8))
    for k in (2, 3):
        ts.append(dict(name=f'retained_k{k}', op='decomp', which='retained', m=k, n=1, cut=8))
    ts.append(dict(name='graph_add', op='graph', which='add', cut=6))
    ts.append(dict(name='graph_from_opchains', op='graph', which='from_opchains', cut=6))
    ts.append(dict(name='graph_from_opgraph', op='graph', which='from_opgraph', cut=6))
    return ts


def required_marks(tier):
    return ['pure_result_checked', 'followup_mutation_checked', 'hamiltonian_untouched', 'qr_sorted_path', 'qr_unsorted_path',
            'other_graph_untouched', 'scalars_checked', 'singular_values_untouched', 'add_disjoint_ids']


def shares(res_arrays, op_arrays):
    for a in res_arrays:
        for b in op_arrays:
            if a is b:
                return True
            if isinstance(a, np.ndarray) and isinstance(b, np.ndarray) and a.size and b.size and np.shares_memory(a, b):
                return True
    return False


def path(eng, acc, task):
    shims.reset_logs()
    op = task['op']
    fails = []
    try:
        if op == 'scalars':
            return path_scalars(eng, acc, task)
        if op == 'decomp':
            return path_decomp(eng, acc, task)
        if op == 'graph':
            return path_graph(eng, acc, task)
        rec = ops.OPS[op](eng, task)
    except DeadPath:
        raise
    except SymDivisionByZero:
        acc.inc('zero_state_paths')
        return
    except Exception as e:
        reraise_internal(e)
        # exceptions are the business of C02 / C01 / C03 / C12 / C13; aliasing cannot be judged on an aborted call
        acc.inc('aborted_calls_not_judged')
        return
    finally:
        poly.ABSTRACT[0] = None
    if rec.get('snap') and not unchanged(rec['snap']):
        fails.append(f'{op}: an object that must stay untouched was modified')
    for (o_, keys_) in rec.get('attr_snap', []):
        if frozenset(vars(o_)) != keys_:
            fails.append(f'{op}: an object that must stay untouched gained or lost an attribute ({sorted(set(vars(o_)) ^ set(keys_))})')
    if rec.get('operands') and not rec['pure']:
        eng.mark('hamiltonian_untouched')
    if rec['pure']:
        op_arrays = []
        for (o, kind, name) in rec.get('operands', []):
            op_arrays += list(o.A) + [o.qd] + list(o.qD)
        op_arrays += [a for a in rec.get('raw_args', []) if isinstance(a, np.ndarray)]
        if 'raw_results' in rec:
            if shares([a for a in rec['raw_results'] if isinstance(a, np.ndarray)], op_arrays):
                fails.append(f'{op}: a returned array is shared with an argument')
        else:
            for (x, kind, name) in rec['results']:
                res_arrays = list(x.A) + [x.qd] + list(x.qD)
                if shares(res_arrays, op_arrays):
                    fails.append(f'{name}: result shares an array with an operand')
        eng.mark('pure_result_checked')
        # follow-up mutation of the result must not reach the operands
        if rec.get('snap') and 'raw_results' in rec:
            for a in rec['raw_results']:
                if isinstance(a, np.ndarray) and a.size:
                    a.reshape(-1)[0] = 12345
            if not unchanged(rec['snap']):
                fails.append(f'{op}: writing into a returned array changed an argument (shared memory)')
            eng.mark('followup_mutation_checked')
        elif rec.get('snap'):
            for (x, kind, name) in rec['results']:
                if hasattr(x, 'zero_qnumbers'):
                    try:
                        x.zero_qnumbers()
                    except Exception:
                        pass
                for a in x.A:
                    if a.size:
                        a.reshape(-1)[0] = 12345
                for qa in [x.qd] + list(x.qD):
                    if isinstance(qa, np.ndarray) and qa.size:
                        qa.reshape(-1)[0] = 777
            if not unchanged(rec['snap']):
                fails.append(f'{op}: mutating the result changed an operand (shared state)')
            eng.mark('followup_mutation_checked')
    acc.inc('nontrivial_paths')
    if acc.get('#samples') < 3 and op == 'binary':
        acc.add('samples', sample(eng, task, dict(op=op, which=task.get('which'))))
    if fails:
        c02.op_candidate(eng, acc, task, f'alias:{op}:' + fails[0][:50], '; '.join(fails), 'C19')


def path_scalars(eng, acc, task):
    L, d = task['L'], task['d']
    P = (1,) + (2,) * (L - 1) + (1,)
    qd, (q0, q1, q2) = ops.mk_charges(eng, task, d, [P, P, P], zero_boundary_for=())
    psi = tn.sym_mps(eng, 'A', d, P, qd, q0); chi = tn.sym_mps(eng, 'B', d, P, qd.copy(), q1)
    H = tn.sym_mpo(eng, 'W', d, P, qd.copy(), q2)
    snap = snapshot(ops.arrays_of([psi, chi, H]))
    fails = []
    outs = [OP.vdot(chi, psi), OP.operator_average(psi, H), OP.operator_inner_product(chi, H, psi), OP.operator_density_average(H, H)]
    v = psi.as_vector(); M = H.as_matrix()
    BR = OP.compute_right_operator_blocks(psi, H)
    if not unchanged(snap):
        fails.append('a scalar-valued operation / dense conversion modified its arguments')
    # (a dense vector / matrix is not an MPS, MPO or graph: whether as_vector() of a single-site state returns a view is outside the property)
    eng.mark('scalars_checked')
    acc.inc('nontrivial_paths')
    if fails:
        c02.op_candidate(eng, acc, task, 'alias:scalars:' + fails[0][:50], '; '.join(fails), 'C19')


def path_decomp(eng, acc, task):
    which, m, n = task['which'], task['m'], task['n']
    fails = []
    if which == 'retained':
        s = eng.sym_array('s', (m,))
        for x in s:
            eng.assume(x >= 0)
        tol = eng.sym('tol'); eng.assume(tol >= 0); eng.assume(tol < 1)
        snap = snapshot([s])
        idx = bond_ops.retained_bond_indices(s, tol)
        if not unchanged(snap):
            fails.append('retained_bond_indices normalised the singular values in place')
        eng.mark('singular_values_untouched')
        inputs = dict(s=list(s), tol=tol)
        kind = 'retained'
    else:
        q0 = eng.sym_array('q0', (m,), 'int'); q1 = eng.sym_array('q1', (n,), 'int')
        A = sparse_tensor(eng, 'A', (m, n), [q0, -q1])
        snap = snapshot([A, q0, q1])
        inputs = dict(A=A.copy(), q0=list(q0), q1=list(q1), tol=0)
        if which == 'qr':
            out = bond_ops.qr(A, q0, q1)
            kind = 'qr'
            im = eng.int_model()
            if im is not None:
                from symx.poly import peval
                c0 = [peval(S(x).t, im) for x in q0]
                eng.mark('qr_sorted_path' if list(np.argsort(c0, kind='mergesort')) == list(range(m)) else 'qr_unsorted_path')
        else:
            tol = eng.sym('tol'); eng.assume(tol >= 0); eng.assume(tol < 1)
            inputs['tol'] = tol
            out = bond_ops.split_matrix_svd(A, q0, q1, tol)
            kind = 'svd_split'
        if not unchanged(snap):
            fails.append(f'{which} modified its input')
        # (the arrays returned by a decomposition are not an MPS / MPO / graph: in the no-common-charge branch qr and
        #  split_matrix_svd return `q0[:1]`, a view of their argument -- observed, but outside the property as stated)
    acc.inc('nontrivial_paths')
    if fails:
        candidate(eng, acc, task, kind, f'alias:{which}:' + fails[0][:50], '; '.join(fails), inputs)


def graph_snapshot(g):
    return (sorted((repr(k), id(n), repr(n.nid), id(n.eids[0]), id(n.eids[1]), tuple(map(repr, n.eids[0])), tuple(map(repr, n.eids[1])), repr(n.qnum)) for k, n in g.nodes.items()),
            sorted((repr(k), id(e), repr(e.eid), id(e.nids), tuple(map(repr, e.nids)), id(e.opics), tuple((o, id(c) if isinstance(c, Sym) else c) for o, c in e.opics)) for k, e in g.edges.items()),
            id(g.nid_terminal), tuple(map(repr, g.nid_terminal)))


def reachable_ids(g):
    out = {id(g.nodes), id(g.edges), id(g.nid_terminal)}
    for n in g.nodes.values():
        out |= {id(n), id(n.eids), id(n.eids[0]), id(n.eids[1])}
    for e in g.edges.values():
        out |= {id(e), id(e.nids), id(e.opics)}
    return out


def path_graph(eng, acc, task):
    from harness.c16 import gen_graph, graph_to_json
    which = task['which']
    fails = []
    inputs = dict(op=which)
    if which == 'add':
        widths = [(), (1,)][eng.choose(2, 'w')]
        g, _ = gen_graph(eng, 'g', widths, 'plain' if widths else 'par')
        qt = (g.nodes[g.nid_terminal[0]].qnum, g.nodes[g.nid_terminal[1]].qnum)
        # id schemes of the other graph: fully colliding, node ids disjoint, edge ids disjoint, everything disjoint
        scheme = eng.choose(4, 'ids')
        nn2 = 2 + sum(widths)
        nids2 = list(range(nn2)) if scheme in (0, 2) else [100 + k for k in range(nn2)]
        eids2 = None if scheme in (0, 1) else (lambda ne: [200 + k for k in range(ne)])
        if scheme == 3:
            eng.mark('add_disjoint_ids')
        h, _ = gen_graph(eng, 'h', widths, 'plain' if widths else 'par', nids=nids2, eids=eids2, qterm=qt)
        snap = graph_snapshot(h)
        inputs.update(op='add', graph=graph_to_json(g), other=graph_to_json(h))
        try:
            g.add(h)
        except (AssertionError, ValueError, KeyError):
            acc.inc('aborted_calls_not_judged')
            return
        if graph_snapshot(h) != snap:
            fails.append('OpGraph.add modified the other graph')
        if reachable_ids(g) & reachable_ids(h):
            fails.append('the updated graph shares node / edge / id-list objects with the other graph')
        # follow-up mutation of the result
        for n in g.nodes.values():
            n.eids[0].append(-99); n.eids[1].append(-99)
        for e in g.edges.values():
            e.nids.append(-99)
        if graph_snapshot(h) != snap:
            fails.append('mutating the updated graph changed the other graph')
        eng.mark('other_graph_untouched')
        kind = 'graph_rewrite'
    elif which == 'from_opchains':
        L = 2
        chains = [OpChain([eng.choose(2, 'o0'), eng.choose(2, 'o1')], [0, eng.sym('q', 'int'), 0], eng.sym('c0'), 0),
                  OpChain([eng.choose(2, 'o2')], [0, 0], eng.sym('c1'), eng.choose(2, 's'))]
        before = [(list(c.oids), list(c.qnums), c.coeff, c.istart, id(c.oids), id(c.qnums)) for c in chains]
        inputs.update(L=L, chains=[dict(oids=list(c.oids), qnums=list(c.qnums), coeff=c.coeff, istart=c.istart) for c in chains])
        try:
            g = OpGraph.from_opchains(chains, L, 0)
        except (AssertionError, ValueError, KeyError):
            acc.inc('aborted_calls_not_judged')
            return
        after = [(list(c.oids), list(c.qnums), c.coeff, c.istart, id(c.oids), id(c.qnums)) for c in chains]
        if [(a[0], a[3], a[4], a[5]) for a in before] != [(a[0], a[3], a[4], a[5]) for a in after] or any(x[2] is not y[2] for x, y in zip(before, after)):
            fails.append('from_opchains modified the chains it was given')
        kind = 'opchains_alias'
    else:
        widths = [(), (1,), (2,)][eng.choose(3, 'w')]
        g, _ = gen_graph(eng, 'g', widths, 'plain' if widths else 'par', qterm=(0, 0))
        for n in g.nodes.values():
            n.qnum = 0
        snap = graph_snapshot(g)
        opmap = {0: eng.sym_array('op0', (2, 2)), 1: eng.sym_array('op1', (2, 2))}
        osnap = snapshot(list(opmap.values()))
        qd = np.zeros(2, dtype=int)
        inputs.update(graph=graph_to_json(g))
        try:
            mpo = ptn.MPO.from_opgraph(qd, g, opmap, compute_nid_map=True)
        except (AssertionError, ValueError, KeyError):
            acc.inc('aborted_calls_not_judged')
            return
        if graph_snapshot(g) != snap or not unchanged(osnap):
            fails.append('from_opgraph modified the graph or the operator map')
        if shares(list(mpo.A), list(opmap.values())) or mpo.qd is qd:
            fails.append('MPO shares arrays with the operator map / qd argument')
        for a in mpo.A:
            a.reshape(-1)[0] = 31337
        mpo.zero_qnumbers(); mpo.qd += 1
        if not unchanged(osnap) or list(qd) != [0, 0]:
            fails.append('mutating the MPO changed the operator map / qd argument')
        kind = 'opgraph_alias'
    acc.inc('nontrivial_paths')
    if fails:
        candidate(eng, acc, task, kind if which == 'add' else 'graph_alias', f'alias:graph:{which}:' + fails[0][:50], '; '.join(fails), inputs)


def validate(seed, tier):
    n = 0
    for t in ops.op_tasks('quick'):
        if t['op'] == 'hamiltonian' and t['L'] > 2:
            continue
        runner.concrete_check('op_step', dict(task=t, seed=seed, focus='C19'))
        n += 1
    return dict(concrete_operation_steps_checked=n)


def evidence(tier, seed, total, per_task, val):
    ts = tasks(tier, seed)
    return dict(
        level='other',
        coverage=dict(
            explanation='identity / aliasing monitors on bounded symbolic executions of every public operation (same drivers as C02, plus scalar-valued '
                        'operations, dense conversion, block QR / SVD split / truncation routine, graph constructors and OpGraph.add); the monitors are '
                        'concrete checks on each feasible path, the paths (charge patterns that decide e.g. whether the "already sorted" shortcut is '
                        'taken) are enumerated by symbolic execution with z3 QF_LIA / QF_LRA feasibility',
            functions_encoded=['add_mps', 'add_mpo', 'multiply_mpo', 'apply_operator', 'MPS/MPO constructors', 'MPO.identity', 'MPS.from_vector', 'split_mps_tensor',
                               'vdot', 'operator_average', 'operator_inner_product', 'operator_density_average', 'as_vector', 'as_matrix', 'compute_right_operator_blocks',
                               'bond_ops.qr', 'bond_ops.split_matrix_svd', 'bond_ops.retained_bond_indices', 'orthonormalize', 'compress', 'TDVP step', 'DMRG sweep',
                               'OpGraph.add', 'OpGraph.from_opchains', 'MPO.from_opgraph', 'Hamiltonian constructors'],
            bounds=dict(tasks=[t['name'] for t in ts]),
            stubs=['as in C02'],
            outside=['dtype-dependent in-place casting (object arrays erase dtypes)', 'shapes beyond the bound'],
            distinct_nontrivial=int(total.get('nontrivial_paths')),
            rule='one case = one feasible path of one operation; aborted calls (exceptions) are not judged here (they belong to C01/C02/C03/C12/C13)',
            aborted_calls_not_judged=int(total.get('aborted_calls_not_judged')),
            samples=total.l.get('samples', []),
            exhaustive=False,
        ),
        assumptions=IDEALISATIONS[2:3] + ['object arrays hold immutable scalars: identity of every element == bit-for-bit equality of the array'],
    )


if __name__ == '__main__':
    runner.main('harness.c19')
