"""
C07  Molecular Hamiltonian MPOs are exact for every orbital count, both build paths; orbital-rotation gauge transform.

molecular_hamiltonian_mpo / spin_molecular_hamiltonian_mpo run end to end with *every* entry of tkin (L^2) and
vint (L^4) symbolic.  The explicit construction has no coefficient-dependent branching (one path per L); on the
bond-optimised path the zero tests on the ~L^4/4 antisymmetrised coefficients would give 2^(#chains) paths, so the
zero pattern is an engine choice from a stated family and the remaining combinations are assumed non-zero (generic).
Oracle: independent Fock-space operator (occupation-number basis, explicit fermionic signs, refs/models.py).
"""
import itertools
import numpy as np

from harness.common import *
from harness import concrete
from refs import models as Mo
from refs import dense as DN
from symx import shims, prover, runner
from symx.engine import DeadPath
from symx.poly import Sym, S, Atom
import pytenet as ptn

PID = 'C07'

MASKS = ['dense', 'tkin_only', 'vint_only', 'diagonal', 'nearest_neighbour', 'seeded0', 'seeded1']


UNITARIES = {
    'identity': [[1, 0], [0, 1]],
    'swap': [[0, 1], [1, 0]],
    'phases': [[1j, 0], [0, -1]],
    'real_rot': [[0.6, -0.8], [0.8, 0.6]],
    'real_rot2': [[5 / 13, 12 / 13], [-12 / 13, 5 / 13]],
    'cplx_mix': [[0.6, 0.8j], [0.8j, 0.6]],
    'cplx_general': [[0.6 * 1j, -0.8], [0.8 * 1j, 0.6]],
}


def tasks(tier, seed):
    ts = []
    q = tier == 'quick'
    for L in (1, 2, 3, 4, 5, 6) if q else (1, 2, 3, 4, 5, 6, 7):
        masks = MASKS if L <= 4 else (['dense', 'seeded0'] if L <= 5 else ['dense'])
        for mk in masks:
            if L == 1 and mk in ('nearest_neighbour',):
                continue
            ts.append(dict(name=f'spinless_opt_L{L}_{mk}', kind='spinless', L=L, optimize=True, mask=mk, dense=True))
    for L in (4, 5, 6) if q else (4, 5, 6, 7):
        ts.append(dict(name=f'spinless_explicit_L{L}', kind='spinless', L=L, optimize=False, mask='dense', dense=True))
    for L in (1, 2) if q else (1, 2, 3):
        for mk in (['dense', 'tkin_only', 'diagonal'] if L <= 2 else ['dense']):
            ts.append(dict(name=f'spin_opt_L{L}_{mk}', kind='spin', L=L, optimize=True, mask=mk, dense=True))
    for L in (2, 3) if q else (2, 3, 4):
        ts.append(dict(name=f'spin_explicit_L{L}', kind='spin', L=L, optimize=False, mask='dense', dense=True))
    # orbital-rotation gauge matrices: all coefficients symbolic, the 2x2 unitary from a stated finite family
    for L in (4, 5, 6) if q else (4, 5, 6, 7):
        for i in range(L - 1):
            ts.append(dict(name=f'gauge_L{L}_i{i}_symbolic', kind='gauge', L=L, i=i, u='symbolic' if L <= 6 else 'symbolic_real', dense=True))
    # L = 7 reaches gauge blocks that no smaller L executes (pair nodes right of the centre with k >= i + 2): concrete complex unitary in the
    # quick tier (cheap: entries stay linear in the coefficients), arbitrary complex unitary in the thorough tier
    for i in ((3, 4, 5) if q else range(6)):
        ts.append(dict(name=f'gauge_L7_i{i}_cplx_general', kind='gauge', L=7, i=i, u='cplx_general', dense=True))
    if not q:
        for i in (3, 4, 5):
            ts.append(dict(name=f'gauge_L7_i{i}_symbolic_cplx', kind='gauge', L=7, i=i, u='symbolic', dense=True))
    for i in (0, 1, 2):
        for uname in (('swap', 'cplx_mix') if q else tuple(UNITARIES)):
            ts.append(dict(name=f'gauge_L4_i{i}_{uname}', kind='gauge', L=4, i=i, u=uname, dense=True))
    # structural only (dense matrices of dimension 4^L are out of reach): construction succeeds, graph bookkeeping is sound
    for L in (5,) if q else (5, 6):
        ts.append(dict(name=f'spin_explicit_L{L}_structural', kind='spin', L=L, optimize=False, mask='dense', dense=False,
                       columns=2 * L))
    # full matrices column by column (sparse propagation of every occupation-number basis state through the MPO chain against the
    # second-quantised operator applied to that state): reaches sizes whose dense object-array matrix does not fit
    for kind, opt, Ls in (('spin', False, (4, 5) if q else (4, 5, 6)), ('spin', True, (3, 4) if q else (3, 4, 5)),
                          ('spinless', False, (7, 8) if q else (7, 8, 9, 10)), ('spinless', True, (7, 8) if q else (7, 8, 9, 10))):
        for L in Ls:
            ts.append(dict(name=f'{kind}_{"opt" if opt else "explicit"}_L{L}_columns', kind=kind, L=L, optimize=opt, mask='dense', dense=False,
                           columns=(L if kind == 'spinless' else 2 * L)))
    if not q:
        ts.append(dict(name='spinless_explicit_L8_structural', kind='spinless', L=8, optimize=False, mask='dense', dense=False))
        ts.append(dict(name='spinless_opt_L4_dense_cplx', kind='spinless', L=4, optimize=True, mask='dense', dense=True, cplx=True))
        ts.append(dict(name='spinless_explicit_L4_cplx', kind='spinless', L=4, optimize=False, mask='dense', dense=True, cplx=True))
    return ts


def required_marks(tier):
    return ['columns_checked', 'optimized_path', 'explicit_path', 'L1', 'spin_L5_explicit_constructed', 'zero_pattern_masked', 'nid_map_checked', 'gauge_checked', 'gauge_symbolic_unitary', 'gauge_nontrivial_matrices']


def make_coeffs(eng, L, mask, seed, cplx=False):
    rng = np.random.default_rng(1000 + seed)
    mk = (lambda nm: eng.csym(nm)) if cplx else (lambda nm: eng.sym(nm))
    tk = shims.objzeros((L, L)); vi = shims.objzeros((L, L, L, L))
    keep_t = np.ones((L, L), dtype=bool); keep_v = np.ones((L, L, L, L), dtype=bool)
    if mask == 'tkin_only':
        keep_v[:] = False
    elif mask == 'vint_only':
        keep_t[:] = False
    elif mask == 'diagonal':
        keep_t = np.eye(L, dtype=bool)
        keep_v[:] = False
        for i in range(L):
            for j in range(L):
                keep_v[i, j, i, j] = True
    elif mask == 'nearest_neighbour':
        for i in range(L):
            for j in range(L):
                keep_t[i, j] = abs(i - j) <= 1
        for i, j, k, l in itertools.product(range(L), repeat=4):
            keep_v[i, j, k, l] = max(i, j, k, l) - min(i, j, k, l) <= 1
    elif mask.startswith('seeded'):
        r2 = np.random.default_rng(int(mask[-1]) + 17 * seed)
        keep_t = r2.random((L, L)) < 0.5
        keep_v = r2.random((L, L, L, L)) < 0.3
    for i in range(L):
        for j in range(L):
            if keep_t[i, j]:
                tk[i, j] = mk(f't{i}{j}')
    for idx in itertools.product(range(L), repeat=4):
        if keep_v[idx]:
            vi[idx] = mk('v' + ''.join(map(str, idx)))
    return tk, vi


def assume_generic(eng, kind, tk, vi):
    """every structurally non-zero coefficient combination tested by the optimised path is assumed non-zero"""
    L = tk.shape[0]
    def nz(x):
        x = S(x)
        if x.is_zero():
            return
        if x.u is None:
            eng.assume(x != 0)
        else:
            # complex: a generic complex number has non-zero real and imaginary parts (both are asked by the comparison with 0)
            eng.assume(Sym(x.t) != 0)
            eng.assume(Sym(x.u) != 0)
    for x in tk.reshape(-1):
        nz(x)
    if kind == 'spinless':
        g = 0.5 * (vi - np.transpose(vi, (1, 0, 2, 3)) - np.transpose(vi, (0, 1, 3, 2)) + np.transpose(vi, (1, 0, 3, 2)))
        for i in range(L):
            for j in range(i + 1, L):
                for k in range(L):
                    for l in range(k + 1, L):
                        nz(g[i, j, k, l])
    else:
        g0 = 0.5 * (vi + np.transpose(vi, (1, 0, 3, 2)))
        g1 = 0.5 * (np.transpose(vi, (1, 0, 2, 3)) + np.transpose(vi, (0, 1, 3, 2)))
        for idx in itertools.product(range(L), repeat=4):
            nz(g0[idx]); nz(g1[idx]); nz(g0[idx] - g1[idx])


def structural_fails(mpo, L, d, explicit):
    fails = []
    if mpo.nsites != L:
        fails.append(f'MPO has {mpo.nsites} sites, expected {L}')
    if len(mpo.qD) != L + 1 or any(len(mpo.qD[i]) != mpo.A[i].shape[2] for i in range(L)) or len(mpo.qD[L]) != mpo.A[-1].shape[3]:
        fails.append('len(qD[i]) does not match the bond dimensions')
        return fails
    if mpo.bond_dims[0] != 1 or mpo.bond_dims[-1] != 1:
        fails.append('outer bond dimensions are not 1')
    qd = [int(x) for x in mpo.qd]
    for i, A in enumerate(mpo.A):
        qL = [int(x) for x in mpo.qD[i]]; qR = [int(x) for x in mpo.qD[i + 1]]
        for idx in np.ndindex(*A.shape):
            if not is_structural_zero(A[idx]):
                s, t, a, b = idx
                if qd[s] - qd[t] + qL[a] - qR[b] != 0:
                    fails.append(f'tensor {i} entry {idx} violates the quantum-number rule')
                    return fails
    if explicit:
        nm = getattr(mpo, 'nid_map', None)
        if nm is None:
            fails.append('explicit construction did not store nid_map')
        else:
            seen = set()
            for nid, (l, i) in nm.items():
                if not (0 <= l <= L and 0 <= i < len(mpo.qD[l])):
                    fails.append(f'nid_map[{nid}] = {(l, i)} out of range')
                    break
                if (l, i) in seen:
                    fails.append('nid_map maps two nodes to one bond index')
                    break
                seen.add((l, i))
            if len(seen) != sum(len(q) for q in mpo.qD):
                fails.append('nid_map does not cover every bond index')
            # every node id stored by copy_nids must be locatable, at the bond its key says
            for attr in dir(mpo):
                if not attr.startswith('nids_'):
                    continue
                store = getattr(mpo, attr)
                for key, bymap in store.items():
                    if not isinstance(bymap, dict):
                        bymap = {key: bymap}        # identity chains: key is the bond index itself
                    for bond, nid in bymap.items():
                        if nid not in nm:
                            fails.append(f'{attr}[{key}][{bond}] = {nid} is not in nid_map')
                            return fails
                        if nm[nid][0] != bond:
                            fails.append(f'{attr}[{key}][{bond}] is located at bond {nm[nid][0]} by nid_map')
                            return fails
    return fails


def path_gauge(eng, acc, task):
    """molecular_hamiltonian_orbital_gauge_transform: replacing the tensors at sites i, i+1 of the explicit MPO by those of the
    MPO of the rotated coefficients, gauge-transformed on bonds i and i+2, must give the operator of the rotated coefficients"""
    L, i = task['L'], task['i']
    if task['u'] in ('symbolic', 'symbolic_real'):
        # an ARBITRARY 2x2 unitary: 8 (4) real unknowns constrained only by u^H u = 1 (needed by the function's own assertion)
        if task['u'] == 'symbolic':
            u2 = np.array([[eng.csym('u00'), eng.csym('u01')], [eng.csym('u10'), eng.csym('u11')]], dtype=object)
        else:
            u2 = np.array([[eng.sym('u00'), eng.sym('u01')], [eng.sym('u10'), eng.sym('u11')]], dtype=object)
        G = u2.conj().T.dot(u2)
        for x, y, val in ((0, 0, 1), (1, 1, 1), (0, 1, 0)):
            g = S(G[x, y]) - val
            eng.assume(Atom(g.t, '=='), tag='promoted')
            if g.u:
                eng.assume(Atom(g.u, '=='), tag='promoted')
        u = np.identity(L, dtype=object)
        eng.mark('gauge_symbolic_unitary')
    else:
        u2 = np.array(UNITARIES[task['u']], dtype=complex)
        u = np.identity(L, dtype=complex)
    tk, vi = make_coeffs(eng, L, 'dense', 0, False)
    inputs = dict(kind='gauge', L=L, i=i, u=[[x for x in r] for r in u2], tkin=tk.copy(), vint=vi.copy())
    u[i:i + 2, i:i + 2] = u2
    fails = []
    try:
        tk_r = np.einsum(u, (2, 0), u.conj(), (3, 1), tk, (2, 3), (0, 1))
        vi_r = np.einsum(u, (4, 0), u, (5, 1), u.conj(), (6, 2), u.conj(), (7, 3), vi, (4, 5, 6, 7), (0, 1, 2, 3))
        h = ptn.molecular_hamiltonian_mpo(tk, vi, optimize=False)
        h_r = ptn.molecular_hamiltonian_mpo(tk_r, vi_r, optimize=False)
        h.A[i] = h_r.A[i].copy(); h.A[i + 1] = h_r.A[i + 1].copy()
        v_l, v_r = ptn.molecular_hamiltonian_orbital_gauge_transform(h, u2, i)
        h.A[i] = np.einsum(v_l, (2, 4), h.A[i], (0, 1, 4, 3), (0, 1, 2, 3))
        h.A[i + 1] = np.einsum(v_r, (3, 4), h.A[i + 1], (0, 1, 2, 4), (0, 1, 2, 3))
        M = h.as_matrix(); Mr = h_r.as_matrix()
    except Exception as e:
        reraise_internal(e)
        import traceback
        tb = traceback.extract_tb(e.__traceback__)[-1]
        candidate(eng, acc, task, 'molecular_gauge', f'gauge:raises:{type(e).__name__}@{tb.lineno}', repr(e), inputs)
        return
    n = 2 ** L
    if any(isinstance(x, Sym) and not x.is_const() for x in list(v_l.reshape(-1)) + list(v_r.reshape(-1))):
        eng.mark('gauge_nontrivial_matrices')
    pairs = [(S(M[a, b]), S(Mr[a, b])) for a in range(n) for b in range(n) if not (is_structural_zero(M[a, b]) and is_structural_zero(Mr[a, b]))]
    goals = [l - r for l, r in pairs]
    res = prover.prove(eng, pairs=pairs, rounds=0, acc=acc, label='vc_gauge_exact')
    if res != 'proved' and task['u'].startswith('symbolic'):
        res = prover.prove_escalating(eng, goals, rounds=(1, 2), acc=acc, label='vc_gauge_mod_unitarity', maxdeg=10, max_products=60000)
    if res != 'proved':
        from symx.poly import VARS, VROLE, VKIND
        ivars = [v for v in range(len(VARS)) if VROLE[v] == 'input' and VKIND[v] == 'real']
        if prover.prove_within_tolerance(eng, goals, ivars, acc=acc, label='vc_gauge_tol') != 'proved':
            fails.append('gauge-transformed MPO differs from the MPO of the rotated coefficients')
    eng.mark('gauge_checked')
    acc.inc('nontrivial_paths')
    if fails:
        candidate(eng, acc, task, 'molecular_gauge', 'gauge:' + fails[0][:40], '; '.join(fails), inputs)


def path(eng, acc, task):
    if task['kind'] == 'gauge':
        return path_gauge(eng, acc, task)
    kind, L, opt = task['kind'], task['L'], task['optimize']
    cplx = task.get('cplx', False)
    tk, vi = make_coeffs(eng, L, task['mask'], 0, cplx)
    if task['mask'] != 'dense':
        eng.mark('zero_pattern_masked')
    inputs = dict(kind=kind, optimize=opt, tkin=tk.copy(), vint=vi.copy())
    d = 2 if kind == 'spinless' else 4
    f = ptn.molecular_hamiltonian_mpo if kind == 'spinless' else ptn.spin_molecular_hamiltonian_mpo
    if opt:
        assume_generic(eng, kind, tk, vi)
        eng.mark('optimized_path')
    else:
        eng.mark('explicit_path')
    if L == 1:
        eng.mark('L1')
    snap = snapshot([tk, vi])
    fails = []
    try:
        mpo = f(tk, vi, optimize=opt)
    except Exception as e:
        reraise_internal(e)
        # identically-zero operator on the optimised path is outside the property
        # (same convention as C05/C06: the chain compiler needs at least one non-zero term)
        if opt and d ** L <= 256:
            refz = Mo.molecular(tk, vi) if kind == 'spinless' else Mo.spin_molecular(tk, vi)
            if all(is_structural_zero(x) for x in refz.reshape(-1)):
                acc.inc('zero_operator_excluded')
                return
        import traceback
        tb = traceback.extract_tb(e.__traceback__)[-1]
        candidate(eng, acc, task, 'molecular', f'molecular:{kind}:{"opt" if opt else "explicit"}:raises:{type(e).__name__}@{tb.name}', repr(e), inputs)
        return
    if kind == 'spin' and L == 5 and not opt:
        eng.mark('spin_L5_explicit_constructed')
    fails += structural_fails(mpo, L, d, not opt)
    if not opt:
        eng.mark('nid_map_checked')
    if not unchanged(snap):
        fails.append('coefficient tensors were modified')
    if task['dense'] and not fails:
        M = mpo.as_matrix()
        ref = Mo.molecular(tk, vi) if kind == 'spinless' else Mo.spin_molecular(tk, vi)
        n = d ** L
        if M.shape != (n, n):
            fails.append(f'matrix shape {M.shape}')
        else:
            pairs = [(S(M[i, j]), S(ref[i, j])) for i in range(n) for j in range(n)
                     if not (is_structural_zero(M[i, j]) and is_structural_zero(ref[i, j]))]
            acc.inc('structurally_zero_entries', n * n - len(pairs))
            if prover.prove(eng, pairs=pairs, rounds=0, acc=acc, label='vc_matrix') != 'proved':
                fails.append('dense matrix differs from the second-quantised operator')
    if task.get('columns') is not None and not fails:
        # sizes whose full dense matrix is out of reach: the columns of all occupation-number basis states with at most `columns`
        # particles (every term of the operator touches at most four modes; wrong Jordan-Wigner strings show on spectator modes)
        nmodes = L if kind == 'spinless' else 2 * L
        states = Mo.states_up_to(nmodes, task['columns'])
        got = DN.mpo_columns(mpo.A, d, states)
        terms = Mo.molecular_terms(tk, vi) if kind == 'spinless' else Mo.spin_molecular_terms(tk, vi)
        ref = Mo.operator_columns(nmodes, terms, states)
        pairs = []
        for st in states:
            for r in set(got[st]) | set(ref[st]):
                pairs.append((S(got[st].get(r, 0)), S(ref[st].get(r, 0))))
        acc.inc('column_entries_compared', len(pairs))
        eng.mark('columns_checked')
        if prover.prove(eng, pairs=pairs, rounds=0, acc=acc, label='vc_columns') != 'proved':
            fails.append('matrix columns (few-particle basis states) differ from the second-quantised operator')
    acc.inc('nontrivial_paths')
    if acc.get('#samples') < 4:
        acc.add('samples', sample(eng, task, dict(bond_dims=mpo.bond_dims, L=L, kind=kind, optimize=opt)))
    if fails:
        candidate(eng, acc, task, 'molecular', f'molecular:{kind}:{"opt" if opt else "explicit"}:' + fails[0][:40], '; '.join(fails), inputs)


def validate(seed, tier):
    rng = np.random.default_rng(seed)
    n = 0
    for kind, L, opt in (('spinless', 3, True), ('spinless', 4, False), ('spin', 2, True), ('spin', 2, False)):
        tk = rng.standard_normal((L, L)); vi = rng.standard_normal((L, L, L, L))
        runner.concrete_check('molecular', dict(kind=kind, optimize=opt, tkin=tk.tolist(), vint=vi.tolist()))
        n += 1
        # dtype mechanics are erased by the symbolic encoding: integer-valued (dtype int) coefficient tensors through the real code
        tki = rng.integers(-3, 4, size=(L, L)); vii = rng.integers(-3, 4, size=(L, L, L, L))
        runner.concrete_check('molecular', dict(kind=kind, optimize=opt, tkin=tki.tolist(), vint=vii.tolist(), dtype='int'))
        n += 1
    return dict(concrete_inputs_checked=n)


def evidence(tier, seed, total, per_task, val):
    ts = tasks(tier, seed)
    return dict(
        level='other',
        coverage=dict(
            explanation='bounded symbolic execution of molecular_hamiltonian_mpo / spin_molecular_hamiltonian_mpo (both build paths) with all '
                        'L^2 + L^4 coefficients symbolic; the dense MPO matrix and the independent Fock-space operator are handed to z3 '
                        '(QF_LRA over monomials) entry by entry, which decides equality for all coefficient values; explicit path: one path per L; '
                        'optimised path: zero pattern from a stated family, remaining coefficient combinations assumed non-zero',
            functions_encoded=['molecular_hamiltonian_mpo', 'spin_molecular_hamiltonian_mpo', 'MolecularOpGraphNodes.*', 'SpinMolecularOpGraphNodes.*',
                               '_molecular_hamiltonian_graph_add_term', '_spin_molecular_hamiltonian_graph_add_term', 'SpinOperatorConverter.*',
                               'OpGraph.from_opchains', 'MPO.from_opgraph', 'MPO.as_matrix'],
            bounds=dict(tasks=[t['name'] for t in ts], zero_pattern_family=MASKS),
            stubs=[],
            gauge_transform='decided for ALL coefficient tensors (symbolic) and an ARBITRARY 2x2 unitary (8 real unknowns, assumed u^H u = 1), L = 4..6 (7 thorough, real u), every rotated pair i; '
                            'the identity turned out to be an exact polynomial identity in the entries of u and conj(u)',
            outside=[
                     'dense equality for spin L >= 4 (quick) / 5 (thorough): 4^L-dimensional symbolic matrices',
                     'measure-zero cancellations among non-zero coefficients on the optimised path (assumed generic)'],
            distinct_nontrivial=int(total.get('nontrivial_paths')),
            rule='one case = (model, L, build path, zero pattern); all coefficient values are covered by each case',
            obligations=int(total.get('vc_goals')),
            vc_results={k: int(v) for k, v in total.c.items() if k.startswith('vc_') and k.split('_')[-1] in ('proved', 'trivial', 'unknown', 'unproved')},
            samples=total.l.get('samples', []),
            exhaustive=False,
        ),
        assumptions=IDEALISATIONS[:1] + ['Fock-space reference written from the docstring formula, validated numerically against the unchanged tree each run'],
    )


if __name__ == '__main__':
    runner.main('harness.c07')
