"""
C16  Operator-graph rewrites preserve the denoted operator and graph consistency.

Input graphs are generated *inside* the exploration (engine choices): layered graphs with parallel edges,
multi-operator edges, symbolic coefficients (so "equal operators" vs "different coefficients" are paths of the
comparison edge1.opics == edge2.opics), symbolic node quantum numbers, and for `add` several id-collision
schemes including fully symbolic (pairwise distinct) ids of the second graph.
One rewrite is executed from an arbitrary consistent graph (one inductive step); oracle: word polynomials.
"""
import copy
import itertools
import numpy as np

from harness.common import *
from harness import concrete
from refs import words as W
from symx import shims, prover, runner
from symx.engine import DeadPath
from symx.poly import Sym, S, Atom
from pytenet.opgraph import OpGraph, OpGraphNode, OpGraphEdge

PID = 'C16'

OPICS1 = [None, ((0,),), ((1,),)]                                  # per node pair: no edge / one single-operator edge
OPICS2 = [None, ((0,),), ((1,),), ((0, 1),), ((0,), (0,)), ((0,), (1,))]   # + two-operator edge, two parallel edges


def tasks(tier, seed):
    ts = []
    q = tier == 'quick'
    ops = ['simplify', 'merge', 'rename_node', 'rename_edge', 'flip']
    fams = [((), 'par'), ((1,), 'rich'), ((2,), 'rich'), ((1, 1), 'rich'), ((2, 1), 'plain'), ((1, 2), 'plain')]
    if not q:
        fams += [((2, 2), 'plain'), ((3,), 'plain'), ((2, 1), 'rich'), ((1, 2), 'rich')]
    for widths, fam in fams:
        for op in ops:
            ts.append(dict(name=f'{op}_w{"".join(map(str, widths)) or "0"}_{fam}', op=op, widths=widths, fam=fam,
                           cut=4 if len(widths) >= 1 else None))
    # every order of three-element edge-id lists (fan-shaped graphs: one upstream node with two parallel edges, one with a single edge)
    for op in ('simplify', 'merge'):
        ts.append(dict(name=f'{op}_w2_rich_eidorder', op=op, widths=(2,), fam='rich', permute=True, cut=5))
        if not q:
            ts.append(dict(name=f'{op}_w22_plain_eidorder', op=op, widths=(2, 2), fam='plain', permute=True, cut=6))
    # add: first graph from the family, second graph small; id schemes
    CONC = ('collide', 'shifted', 'swapped'); SYMB = ('fresh', 'nodes_collide_edges_fresh')
    afams = [((), 'par', (), CONC + SYMB), ((1,), 'plain', (1,), CONC + SYMB[1:] + ('nodes_fresh_edges_collide',)),
             ((2,), 'plain', (1,), CONC), ((1,), 'plain', (2,), CONC)]
    if not q:
        afams += [((2,), 'plain', (2,), CONC), ((2,), 'plain', (1,), SYMB[1:]), ((1, 1), 'plain', (1, 1), CONC), ((1,), 'rich', (1,), CONC)]
    for w1, fam, w2, schemes in afams:
        for scheme in schemes:
            ts.append(dict(name=f'add_w{"".join(map(str, w1)) or "0"}_{fam}_w{"".join(map(str, w2)) or "0"}_{scheme}',
                           op='add', widths=w1, fam=fam, widths2=w2, scheme=scheme, cut=5))
    if not q:
        for widths, fam in [((1,), 'rich'), ((2,), 'plain')]:
            ts.append(dict(name=f'seq2_w{"".join(map(str, widths))}_{fam}', op='seq2', widths=widths, fam=fam, cut=4))
    return ts


def required_marks(tier):
    return ['merge_same_upstream', 'merge_fuse_nodes', 'simplify_changed', 'simplify_noop', 'coeffs_equal_path',
            'coeffs_differ_path', 'add_ids_renamed', 'charges_differ_block_merge']


def gen_graph(eng, tag, widths, fam, nids=None, eids=None, qterm=None, symbolic_ids=False, permute_eids=False):
    """layered graph; returns (graph, description)"""
    layers = [1] + list(widths) + [1]
    nn = sum(layers)
    if nids is None:
        nids = list(range(nn))
    # node ids per layer
    pos = []
    k = 0
    for w in layers:
        pos.append(list(range(k, k + w))); k += w
    qn = []
    for i in range(nn):
        if qterm is not None and i == 0:
            qn.append(qterm[0])
        elif qterm is not None and i == nn - 1:
            qn.append(qterm[1])
        else:
            qn.append(eng.sym(f'{tag}q{i}', 'int'))
    opts = OPICS2 if fam in ('rich', 'par') else OPICS1
    edges = []
    ne = 0
    ins = {i: [] for i in range(nn)}; outs = {i: [] for i in range(nn)}
    for l in range(len(layers) - 1):
        for a in pos[l]:
            for b in pos[l + 1]:
                if fam == 'par':
                    npar = 1 + eng.choose(3, f'{tag}par')
                    spec = tuple((eng.choose(2, f'{tag}po{j}'),) if eng.choose(2, f'{tag}single{j}') == 0 else (0, 1) for j in range(npar))
                else:
                    spec = opts[eng.choose(len(opts), f'{tag}e{a}_{b}')]
                if spec is None:
                    continue
                for oids in spec:
                    edges.append((ne, a, b, oids)); outs[a].append(ne); ins[b].append(ne); ne += 1
    for i in range(nn):
        if i != 0 and not ins[i]:
            raise DeadPath()
        if i != nn - 1 and not outs[i]:
            raise DeadPath()
    if eids is None:
        eids = list(range(ne))
    elif callable(eids):
        eids = eids(ne)
    # the order of a node's edge-id lists is arbitrary input: nodes with exactly three edges on one side try every order
    # (the rewrite rules scan pairs in list order, so an asymmetric rule only shows for particular orders)
    if permute_eids:
        import itertools as _it
        for side in (ins, outs):
            for i in range(nn):
                if len(side[i]) == 3:
                    perms = list(_it.permutations(side[i]))
                    side[i] = list(perms[eng.choose(len(perms), f'{tag}perm{i}')])
    nodes = [OpGraphNode(nids[i], [eids[e] for e in ins[i]], [eids[e] for e in outs[i]], qn[i]) for i in range(nn)]
    elist = []
    shared_nids = {}      # parallel edges are built from ONE caller-side list object (legal use: the constructor must copy it)
    for (e, a, b, oids) in edges:
        lst = shared_nids.setdefault((a, b), [nids[a], nids[b]])
        elist.append(OpGraphEdge(eids[e], lst, [(o, eng.sym(f'{tag}c{e}_{o}')) for o in oids]))
    g = OpGraph(nodes, elist, [nids[0], nids[nn - 1]])
    desc = dict(layers=layers, edges=[(a, b, list(o)) for _, a, b, o in edges])
    return g, desc


def type_invariant_fails(g):
    fails = []
    if not isinstance(g.nid_terminal, list) or len(g.nid_terminal) != 2:
        fails.append(f'nid_terminal is a {type(g.nid_terminal).__name__}, not a list of two ids (a later rename of a terminal node would fail)')
    if not isinstance(g.nodes, dict) or not isinstance(g.edges, dict):
        fails.append('nodes / edges are not dictionaries')
    for n in g.nodes.values():
        if not (isinstance(n.eids, tuple) and len(n.eids) == 2 and all(isinstance(x, list) for x in n.eids)):
            fails.append('node.eids is not a pair of lists')
            break
    for e in g.edges.values():
        if not isinstance(e.nids, list) or len(e.nids) != 2 or not isinstance(e.opics, list):
            fails.append('edge.nids / edge.opics are not lists')
            break
    return fails


def graph_to_json(g):
    return dict(nodes=[dict(nid=n.nid, eids_in=list(n.eids[0]), eids_out=list(n.eids[1]), qnum=n.qnum) for n in g.nodes.values()],
                edges=[dict(eid=e.eid, nids=list(e.nids), opics=[[o, c] for o, c in e.opics]) for e in g.edges.values()],
                nid_terminal=list(g.nid_terminal))


def struct_snapshot(g):
    return (sorted((repr(k), id(n), repr(n.nid), tuple(map(repr, n.eids[0])), tuple(map(repr, n.eids[1])), repr(n.qnum)) for k, n in g.nodes.items()),
            sorted((repr(k), id(e), repr(e.eid), tuple(map(repr, e.nids)), tuple((o, id(c) if isinstance(c, Sym) else c) for o, c in e.opics)) for k, e in g.edges.items()),
            tuple(map(repr, g.nid_terminal)))


def mergeable_pairs(g, direction):
    """(eid1, eid2) pairs satisfying the asserted precondition of merge_edges (decided by branching)"""
    out = []
    for nid, node in g.nodes.items():
        eids = node.eids[1 - direction]
        for e1, e2 in itertools.permutations(eids, 2):
            a, b = g.edges[e1], g.edges[e2]
            if a.nids[1 - direction] == b.nids[1 - direction]:
                out.append((e1, e2, 'same_upstream'))
                continue
            n1, n2 = g.nodes[a.nids[1 - direction]], g.nodes[b.nids[1 - direction]]
            if len(n1.eids[direction]) != 1 or len(n2.eids[direction]) != 1:
                continue
            out.append((e1, e2, 'fuse'))
    return out


def distinct_syms(eng, name, n):
    xs = [eng.sym(f'{name}{i}', 'int') for i in range(n)]
    for i in range(n):
        for j in range(i):
            eng.assume(xs[i] != xs[j])
    return xs


def symids(n, base=0, step=1):
    return [Sym.const(base + step * i) for i in range(n)]


def path(eng, acc, task, focus='C16'):
    op = task['op']
    wrap = op in ('rename_node', 'rename_edge') or (op == 'add' and task['scheme'] in ('fresh', 'nodes_collide_edges_fresh', 'nodes_fresh_edges_collide'))
    if wrap:
        # ids are symbolic somewhere in this task: every id is a Sym so that dict/set lookups decide by __eq__
        g, desc = gen_graph(eng, 'g', task['widths'], task['fam'], nids=symids(2 + sum(task['widths'])), eids=lambda ne: symids(ne))
    else:
        g, desc = gen_graph(eng, 'g', task['widths'], task['fam'], permute_eids=task.get('permute', False))
    fails = []
    if not g.is_consistent():
        raise runner.HarnessError('generated graph is not consistent')
    w0 = W.graph_words(g)
    n0, e0 = len(g.nodes), len(g.edges)
    widths0 = W.layer_widths(g)
    inputs = dict(op=op, graph=graph_to_json(g))
    ref = w0
    other = None
    detail = {}
    try:
        if op == 'simplify':
            g.simplify()
            eng.mark('simplify_changed' if (len(g.nodes), len(g.edges)) != (n0, e0) else 'simplify_noop')
        elif op == 'seq2':
            # cross-check of the induction: two rewrites in sequence
            g.simplify(); g.flip(); g.simplify(); g.flip()
        elif op == 'flip':
            g.flip()
            ref = {tuple(reversed(w)): c for w, c in w0.items()}
        elif op == 'merge':
            direction = eng.choose(2, 'dir')
            pairs = mergeable_pairs(g, direction)
            if not pairs:
                raise DeadPath()
            e1, e2, kind = pairs[eng.choose(len(pairs), 'pair')]
            if kind == 'fuse':
                a, b = g.edges[e1], g.edges[e2]
                if not (a.opics == b.opics):
                    eng.mark('coeffs_differ_path')
                    raise DeadPath()      # precondition of merge_edges not met on this path
                eng.mark('coeffs_equal_path')
                n1, n2 = g.nodes[a.nids[1 - direction]], g.nodes[b.nids[1 - direction]]
                if not (n1.qnum == n2.qnum):
                    eng.mark('charges_differ_block_merge')
                    raise DeadPath()
                eng.mark('merge_fuse_nodes')
            else:
                eng.mark('merge_same_upstream')
            inputs.update(eid1=e1, eid2=e2, direction=direction)
            g.merge_edges(e1, e2, direction)
        elif op == 'rename_node':
            keys = list(g.nodes.keys())
            cur = keys[eng.choose(len(keys), 'which')]
            new = eng.sym('newid', 'int')
            for k in keys:
                eng.assume(new != k)
            inputs.update(cur=cur, new=new)
            g.rename_node_id(cur, new)
            if not any(isinstance(k, Sym) and k is new for k in g.nodes.keys()):
                fails.append('renamed node not present under its new id')
        elif op == 'rename_edge':
            keys = list(g.edges.keys())
            cur = keys[eng.choose(len(keys), 'which')]
            new = eng.sym('newid', 'int')
            for k in keys:
                eng.assume(new != k)
            inputs.update(cur=cur, new=new)
            g.rename_edge_id(cur, new)
            if not any(isinstance(k, Sym) and k is new for k in g.edges.keys()):
                fails.append('renamed edge not present under its new id')
        elif op == 'add':
            scheme = task['scheme']
            qt = (g.nodes[g.nid_terminal[0]].qnum, g.nodes[g.nid_terminal[1]].qnum)
            nn2 = 2 + sum(task['widths2'])
            first_n = sorted(g.nodes.keys()); first_e = sorted(g.edges.keys())
            if scheme == 'collide':
                nids = list(range(nn2)); eids = None
            elif scheme == 'shifted':
                nids = [i + 1 for i in range(nn2)]; eids = lambda ne: [i + 1 for i in range(ne)]
            elif scheme == 'swapped':
                nids = list(reversed(range(nn2))); eids = lambda ne: list(reversed(range(ne)))
            elif scheme == 'fresh':
                nids = distinct_syms(eng, 'hn', nn2)
                eids = lambda ne: distinct_syms(eng, 'he', ne)
            elif scheme == 'nodes_fresh_edges_collide':
                nids = distinct_syms(eng, 'hn', nn2)
                eids = lambda ne: symids(ne)
            else:
                nids = symids(nn2)
                eids = lambda ne: distinct_syms(eng, 'he', ne)
            # symbolic ids: pairwise distinct (graph invariant); everything else (order, collisions with g) is free
            other, desc2 = gen_graph(eng, 'h', task['widths2'], 'plain', nids=nids, eids=eids, qterm=qt)
            if not other.is_consistent():
                raise runner.HarnessError('generated second graph is not consistent')
            wh = W.graph_words(other)
            snap_other = struct_snapshot(other)
            inputs.update(other=graph_to_json(other))
            g.add(other)
            ref = dict(w0)
            for w, c in wh.items():
                W.wadd(ref, w, c)
            if struct_snapshot(other) != snap_other:
                fails.append('add() modified the other graph')
            mine = {id(x) for x in list(g.nodes.values()) + list(g.edges.values())}
            if any(id(x) in mine for x in list(other.nodes.values()) + list(other.edges.values())):
                fails.append('add() shares node/edge objects with the other graph')
            for n in other.nodes.values():
                for gn in g.nodes.values():
                    if n.eids[0] is gn.eids[0] or n.eids[1] is gn.eids[1]:
                        fails.append('add() shares an edge-id list with the other graph')
            eng.mark('add_ids_renamed')
    except DeadPath:
        raise
    except Exception as e:
        reraise_internal(e)
        import traceback
        ln = traceback.extract_tb(e.__traceback__)[-1].lineno
        candidate(eng, acc, task, 'graph_rewrite', f'rewrite:{op}:raises:{type(e).__name__}@{ln}', repr(e), inputs)
        return
    try:
        cons = g.is_consistent()
        w1 = W.graph_words(g)
    except Exception as e:
        candidate(eng, acc, task, 'graph_rewrite', f'rewrite:{op}:walk:{type(e).__name__}', repr(e), inputs)
        return
    if not cons:
        fails.append(f'graph inconsistent after {op}')
    # representation invariant of the one-step induction: the container types every later rewrite relies on
    fails += type_invariant_fails(g)
    if focus == 'C20':
        # compactness only: simplification never increases a layer width (= bond dimension)
        if op in ('simplify', 'seq2', 'merge', 'add'):
            try:
                w_after = W.layer_widths(g)
            except Exception:
                return
            if op == 'add':
                bound = [a + b for a, b in zip(widths0, W.layer_widths(other))] if other is not None else widths0
                bound[0] = bound[-1] = 1
            else:
                bound = widths0
            acc.inc('nontrivial_paths')
            eng.mark('simplify_width_checked')
            if len(w_after) != len(bound) or any(a > b for a, b in zip(w_after, bound)):
                candidate(eng, acc, task, 'graph_c20', f'c20:{op}:width', f'a layer width increased: {bound} -> {w_after}', inputs)
        return
    goals = [d for _, d in W.words_diff(w1, ref)]
    if prover.prove_escalating(eng, goals, rounds=(1, 2, 3), acc=acc, label='vc_words') != 'proved':
        fails.append(f'{op} changed the denoted operator')
    if op in ('simplify', 'seq2', 'merge'):
        if len(g.nodes) > n0 or len(g.edges) > e0:
            fails.append('number of nodes/edges increased')
    acc.inc('nontrivial_paths')
    if acc.get('#samples') < 3 and len(desc['edges']) >= 3:
        acc.add('samples', sample(eng, task, dict(graph=desc, nodes_edges_before=(n0, e0), after=(len(g.nodes), len(g.edges)))))
    if fails:
        candidate(eng, acc, task, 'graph_rewrite', f'rewrite:{op}:' + fails[0][:40], '; '.join(fails), inputs)


def validate(seed, tier):
    # the concrete checker must accept rewrites of a hand-written graph on the unchanged tree
    g = dict(nodes=[dict(nid=0, eids_in=[], eids_out=[0, 1], qnum=0), dict(nid=1, eids_in=[0], eids_out=[2], qnum=1),
                    dict(nid=2, eids_in=[1], eids_out=[3], qnum=1), dict(nid=3, eids_in=[2, 3], eids_out=[], qnum=0)],
             edges=[dict(eid=0, nids=[0, 1], opics=[[1, 0.5]]), dict(eid=1, nids=[0, 2], opics=[[1, 0.5]]),
                    dict(eid=2, nids=[1, 3], opics=[[2, 2.0]]), dict(eid=3, nids=[2, 3], opics=[[0, 3.0]])], nid_terminal=[0, 3])
    n = 0
    for op in ('simplify', 'flip'):
        runner.concrete_check('graph_rewrite', dict(op=op, graph=g))
        n += 1
    runner.concrete_check('graph_rewrite', dict(op='add', graph=g, other=g))


def evidence(tier, seed, total, per_task, val):
    ts = tasks(tier, seed)
    return dict(
        level='other',
        coverage=dict(
            explanation='bounded symbolic execution of OpGraph.simplify / merge_edges / rename_node_id / rename_edge_id / add / flip '
                        'from arbitrary consistent layered graphs generated inside the exploration; coefficient-equality and '
                        'charge-equality tests are decided per path by z3 (QF_LRA / QF_LIA), id order/collision tests for symbolic ids '
                        'by QF_LIA; the word-polynomial identities are discharged by z3 QF_LRA modulo the path equalities',
            functions_encoded=['OpGraph.simplify', 'OpGraph._simplify_step', 'OpGraph.merge_edges', 'OpGraphEdge.add', 'OpGraph.rename_node_id',
                               'OpGraph.rename_edge_id', 'OpGraph.add', 'OpGraph.flip', 'OpGraph.is_consistent'],
            bounds=dict(families=sorted({(t['op'], t['widths'], t['fam']) for t in ts}, key=str),
                        note='widths = inner layer widths; plain = per node pair 0/1 single-operator edge over ids {0,1}; rich = also a '
                             'two-operator edge or two parallel edges; par = 1..3 parallel edges between the terminals; add: id schemes '
                             'collide / shifted / swapped (concrete) and fresh / nodes_collide_edges_fresh (symbolic pairwise distinct ids)'),
            stubs=[],
            distinct_nontrivial=int(total.get('nontrivial_paths')),
            rule='one case = one feasible path (graph skeleton x rewrite x equality pattern of coefficients, charges, ids)',
            obligations=int(total.get('vc_goals')),
            vc_results={k: int(v) for k, v in total.c.items() if k.startswith('vc_') and k.split('_')[-1] in ('proved', 'trivial', 'unknown', 'unproved')},
            samples=total.l.get('samples', []),
            exhaustive=False,
        ),
        assumptions=IDEALISATIONS[:1] + ['one inductive step from an arbitrary consistent graph stands for rewrite sequences inside the size bound',
                                        'both operands of add have the same length and terminal quantum numbers'],
    )


if __name__ == '__main__':
    runner.main('harness.c16')
