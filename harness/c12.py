"""
C12  Block-sparse SVD split truncates exactly the smallest weights within tolerance.

bond_ops.split_matrix_svd / retained_bond_indices / mps.split_mps_tensor run unmodified with symbolic charges,
symbolic entries and a symbolic tolerance 0 <= tol < 1.  np.linalg.svd is the contract stub; the order of the
singular values *across* charge blocks is decided by branching inside np.argsort, "tolerance equal to a
cumulative weight" is the boundary of a branch.  VCs are stated on the normalised weights t_i = s_i^2 / sum s^2
the code itself compares, linked to the singular values by t_i w^2 = s_i^2, w^2 = sum s^2.
"""
import itertools
import numpy as np

from harness.common import *
from harness import concrete, tn
from symx import shims, prover, runner
from symx.engine import DeadPath, run_concrete
from symx.poly import Sym, S, Atom, SymDivisionByZero, psub, padd, pconst
import pytenet.bond_ops as bond_ops
from pytenet.mps import split_mps_tensor, merge_mps_tensor_pair

PID = 'C12'

# observer (behaviour-preserving): remember what the truncation routine was given and what it returned
RBI_LOG = []
_orig_rbi = bond_ops.retained_bond_indices


def _observed_rbi(s, tol):
    idx = _orig_rbi(s, tol)
    RBI_LOG.append(([x for x in s], [int(i) for i in idx]))
    return idx


bond_ops.retained_bond_indices = _observed_rbi


def tasks(tier, seed):
    ts = []
    q = tier == 'quick'
    shapes0 = [(1, 1), (1, 2), (2, 1), (2, 2), (2, 3), (3, 2)] + ([] if q else [(3, 3), (1, 3), (3, 1)])
    for (m, n) in shapes0:
        ts.append(dict(name=f'svd_{m}x{n}_zeroq', kind='svd', m=m, n=n, qmode='zero', tolmode='sym', cplx=False, cut=6))
    for (m, n) in [(1, 1), (1, 2), (2, 1), (2, 2)] + ([] if q else [(2, 3), (3, 2)]):
        ts.append(dict(name=f'svd_{m}x{n}_symq', kind='svd', m=m, n=n, qmode='sym', tolmode='sym', cplx=False, cut=8))
    for (m, n) in [(2, 2), (2, 3)] + ([] if q else [(3, 3)]):
        ts.append(dict(name=f'svd_{m}x{n}_tol0', kind='svd', m=m, n=n, qmode='zero', tolmode='zero', cplx=False, cut=6))
    if not q:
        ts.append(dict(name='svd_2x2_cplx', kind='svd', m=2, n=2, qmode='zero', tolmode='sym', cplx=True, cut=6))
    for k in (1, 2, 3) if q else (1, 2, 3, 4, 5):
        ts.append(dict(name=f'retained_k{k}', kind='retained', k=k, cut=6))
    for distr in ('left', 'right', 'sqrt'):
        ts.append(dict(name=f'split_tol_{distr}', kind='split', distr=distr, d0=2, d1=2, D0=1, D2=1, qmode='zero', cut=6))
        if not q:
            ts.append(dict(name=f'split_tol_{distr}_symq', kind='split', distr=distr, d0=2, d1=1, D0=1, D2=2, qmode='sym', cut=8))
    return ts


def required_marks(tier):
    return ['truncated_some', 'kept_all', 'zero_matrix_path', 'dummy_bond', 'cross_block_order', 'multi_block', 'error_identity_checked',
            'maximality_checked']


def weights(eng, all_s):
    """(w, winv, [t_i]) built exactly like the code under test builds them (memoised stubs => same symbols)"""
    tot = Sym()
    for x in all_s:
        tot = tot + S(x) * S(x)
    w = eng.sqrt_of(tot)
    winv = eng.inverse_of(w)
    return w, winv, [(S(x) * winv) ** 2 for x in all_s]


def truncation_vcs(eng, acc, all_s, kept, tol, fails):
    """VCs on the normalised weights; returns list of discarded singular values"""
    kept_ids = {id(x) for x in kept}
    disc = [x for x in all_s if id(x) not in kept_ids]
    if len(kept) + len(disc) != len(all_s) or any(id(x) not in {id(y) for y in all_s} for x in kept):
        fails.append('returned singular values are not a subset of the block singular values')
        return disc
    try:
        w, winv, t = weights(eng, all_s)
    except SymDivisionByZero:
        # the harness's own normalisation found the branch "all values vanish" open on this path: zero vector, nothing may be retained
        eng.mark('zero_matrix_path')
        if kept:
            fails.append('zero vector but singular values retained')
        return disc
    tk = [ti for x, ti in zip(all_s, t) if id(x) in kept_ids]
    td = [ti for x, ti in zip(all_s, t) if id(x) not in kept_ids]
    eng.mark('truncated_some' if disc else 'kept_all')
    atoms = []
    if td:
        dsum = Sym()
        for x in td:
            dsum = dsum + x
        atoms.append(dsum <= tol)                                   # discarded relative weight never exceeds tol
        for a in tk:
            for b in td:
                atoms.append(b <= a)                                # no kept weight smaller than a discarded one
        for a in tk:
            atoms.append(dsum + a > tol)                            # discarding one more would exceed tol
        eng.mark('maximality_checked')
    else:
        for a in tk:
            atoms.append(a > tol)
    for a in tk:
        atoms.append(a > 0)                                         # kept weights are positive
    atoms = [a for a in atoms if isinstance(a, Atom)]
    if atoms and prover.prove(eng, goal_atoms=atoms, rounds=2, acc=acc, label='vc_truncation_rule') != 'proved':
        fails.append('truncation rule on the normalised weights not proved (tolerance bound / ordering / maximality / positivity)')
    # linking identities t_i w^2 = s_i^2 and w^2 = sum s^2; and s_i = 0 => t_i = 0 (so kept s_i > 0 given s_i >= 0, t_i > 0)
    link = [ti * w * w - S(x) * S(x) for x, ti in zip(all_s, t)]
    if prover.prove_escalating(eng, link, rounds=(2, 3), acc=acc, label='vc_weight_link') != 'proved':
        fails.append('t_i * w^2 = s_i^2 not proved')
    return disc


def path(eng, acc, task):
    shims.reset_logs()
    RBI_LOG.clear()
    kind = task['kind']
    if kind == 'retained':
        return path_retained(eng, acc, task)
    if kind == 'split':
        return path_split(eng, acc, task)
    m, n = task['m'], task['n']
    qm = task['qmode']
    q0 = tn.charges(eng, 'q0', m, qm); q1 = tn.charges(eng, 'q1', n, qm)
    A = sparse_tensor(eng, 'A', (m, n), [q0, -np.asarray(q1, dtype=object)] if qm == 'sym' else [], cplx=task['cplx'])
    if task['tolmode'] == 'zero':
        tol = 0
    else:
        tol = eng.sym('tol')
        eng.assume(tol >= 0); eng.assume(tol < 1)
    A0 = A.copy()
    inputs = dict(A=A0, q0=list(q0), q1=list(q1), tol=tol)
    snap = snapshot([A, q0, q1])
    fails = []
    try:
        u, s, v, q = bond_ops.split_matrix_svd(A, q0, q1, tol)
    except Exception as e:
        reraise_internal(e)
        import traceback
        tb = traceback.extract_tb(e.__traceback__)[-1]
        candidate(eng, acc, task, 'svd_split', f'svd:raises:{type(e).__name__}@{tb.name}', repr(e), inputs)
        return
    finish_svd(eng, acc, task, A0, q0, q1, tol, u, s, v, q, snap, inputs, fails, 'svd_split')


def finish_svd(eng, acc, task, A0, q0, q1, tol, u, s, v, q, snap, inputs, fails, kind):
    m, n = A0.shape
    calls = list(shims.SVD_CALLS)
    all_s = [x for (_, sv, _) in calls for x in sv]
    k = len(s)
    if len(calls) >= 2:
        eng.mark('multi_block')
    if u.shape != (m, k) or v.shape != (k, n) or len(q) != k:
        fails.append(f'shape mismatch u{u.shape} v{v.shape} len(s)={k} len(q)={len(q)}')
    elif not calls:
        # no common charge: dummy bond, product must be the zero matrix
        eng.mark('dummy_bond')
        prod = (u * s).dot(v) if k else np.zeros((m, n), dtype=object)
        if any(not is_structural_zero(x) for x in prod.reshape(-1)) or any(not is_structural_zero(x) for x in A0.reshape(-1)):
            fails.append('no common charge: product or input not zero')
        # (for the zero matrix the property only requires a zero product without raising; block sparsity of the dummy factors under
        #  the returned quantum number is part of the MPS-level invariant and is checked by C02 through compress / TDVP / DMRG)
    else:
        # zero-matrix path?  (w == 0 taken)
        wzero = zero_path(eng, all_s) if all_s else False
        if k == 0 or wzero:
            eng.mark('zero_matrix_path')
            eng.promote_zeros()
            goals = [S(x) for x in A0.reshape(-1)]
            if prover.prove_escalating(eng, goals, rounds=(1, 2, 3), acc=acc, label='vc_zero_matrix') != 'proved':
                fails.append('nothing retained although the matrix may be non-zero')
        else:
            disc = truncation_vcs(eng, acc, all_s, list(s), tol, fails)
            G = u.conj().T.dot(u); Hh = v.dot(v.conj().T)
            iso = [S(G[a, b]) - (1 if a == b else 0) for a in range(k) for b in range(k)] + \
                  [S(Hh[a, b]) - (1 if a == b else 0) for a in range(k) for b in range(k)]
            if prover.prove_escalating(eng, iso, rounds=(1, 2), acc=acc, label='vc_isometry') != 'proved':
                fails.append('u or v is not an isometry')
            # error identity  ||A - u s v||_F^2 = sum of the discarded s^2   (tol = 0 / nothing discarded: product equals A)
            usv = (u * s).dot(v)
            if not disc:
                goals = [S(A0[i, j]) - S(usv[i, j]) for i in range(m) for j in range(n)]
                if prover.prove_escalating(eng, goals, rounds=(1, 2), acc=acc, label='vc_exact') != 'proved':
                    fails.append('nothing discarded but the product differs from the matrix')
            else:
                if task.get('tolmode') == 'zero':
                    eng.promote_zeros()
                    goals = [S(A0[i, j]) - S(usv[i, j]) for i in range(m) for j in range(n)]
                    if prover.prove_escalating(eng, goals, rounds=(2, 3), acc=acc, label='vc_exact_tol0') != 'proved':
                        fails.append('tol = 0 but the product differs from the matrix')
                err = Sym()
                for i in range(m):
                    for j in range(n):
                        err = err + (S(A0[i, j]) - S(usv[i, j])).abs2()
                dsq = Sym()
                for x in disc:
                    dsq = dsq + S(x) * S(x)
                if prover.prove_escalating(eng, [err - dsq], rounds=(2, 3), acc=acc, label='vc_error_identity', max_products=60000, timeout_ms=90000) != 'proved':
                    fails.append('||A - u s v||_F^2 differs from the sum of the discarded squared singular values')
                eng.mark('error_identity_checked')
            fails += sparsity_vcs(eng, acc, u, [np.asarray(q0, dtype=object), -np.asarray(q, dtype=object)], 'u')
            fails += sparsity_vcs(eng, acc, v, [np.asarray(q, dtype=object), -np.asarray(q1, dtype=object)], 'v')
            # cross-block order witnessed?
            if len(calls) >= 2 and k >= 1:
                eng.mark('cross_block_order')
    if not unchanged(snap):
        fails.append('input array was modified')
    acc.inc('nontrivial_paths' if calls else 'dummy_paths')
    if acc.get('#samples') < 3 and calls and k:
        acc.add('samples', sample(eng, task, dict(kept=k, total=len(all_s), blocks=[c[1].shape[0] for c in calls])))
    if fails:
        candidate(eng, acc, task, kind, f'{kind}:' + fails[0][:40], '; '.join(fails), inputs)


def zero_path(eng, all_s):
    """did the code take the branch norm(s) == 0 on this path?  (independent of whether the code tests the norm or its square)"""
    tot = sum_sq(all_s)
    if tot.is_const():
        return tot.cval() == 0
    if eng.known(tot == 0) is True:
        return True
    w = eng.sqrt_of(tot)
    return eng.known(S(w) == 0) is True


def sum_sq(xs):
    tot = Sym()
    for x in xs:
        tot = tot + S(x) * S(x)
    return tot


def path_retained(eng, acc, task):
    """retained_bond_indices on an arbitrary non-negative vector (not necessarily sorted): rule + non-mutation"""
    k = task['k']
    s = eng.sym_array('s', (k,))
    for x in s:
        eng.assume(x >= 0)
    tol = eng.sym('tol')
    eng.assume(tol >= 0); eng.assume(tol < 1)
    snap = snapshot([s])
    inputs = dict(s=list(s), tol=tol)
    fails = []
    try:
        idx = bond_ops.retained_bond_indices(s, tol)
    except Exception as e:
        reraise_internal(e)
        candidate(eng, acc, task, 'retained', f'retained:raises:{type(e).__name__}', repr(e), inputs)
        return
    idx = [int(i) for i in idx]
    if not unchanged(snap):
        fails.append('retained_bond_indices modified the singular values handed to it')
    if sorted(set(idx)) != idx or any(not (0 <= i < k) for i in idx):
        fails.append(f'indices {idx} not strictly increasing within range')
    elif zero_path(eng, list(s)):
        eng.mark('zero_matrix_path')
        if idx:
            fails.append('zero vector but indices retained')
    else:
        truncation_vcs(eng, acc, list(s), [s[i] for i in idx], tol, fails)
    acc.inc('nontrivial_paths')
    if fails:
        candidate(eng, acc, task, 'retained', 'retained:' + fails[0][:40], '; '.join(fails), inputs)


def path_split(eng, acc, task):
    d0, d1, D0, D2 = task['d0'], task['d1'], task['D0'], task['D2']
    qm = task['qmode']
    qd0 = tn.charges(eng, 'qa', d0, qm); qd1 = tn.charges(eng, 'qb', d1, qm)
    qD = [tn.charges(eng, 'ql', D0, qm), tn.charges(eng, 'qr', D2, qm)]
    qdm = tn.qsum([qd0, qd1]).reshape(-1)
    A = sparse_tensor(eng, 'A', (d0 * d1, D0, D2), [qdm, qD[0], -np.asarray(qD[1], dtype=object)] if qm == 'sym' else [])
    tol = eng.sym('tol')
    eng.assume(tol >= 0); eng.assume(tol < 1)
    A0 = A.copy()
    inputs = dict(A=A0, qd0=list(qd0), qd1=list(qd1), qD=[list(qD[0]), list(qD[1])], distr=task['distr'], tol=tol)
    snap = snapshot([A])
    fails = []
    try:
        B0, B1, qb = split_mps_tensor(A, qd0, qd1, qD, task['distr'], tol=tol)
    except Exception as e:
        reraise_internal(e)
        import traceback
        tb = traceback.extract_tb(e.__traceback__)[-1]
        candidate(eng, acc, task, 'split_tol', f'split:raises:{type(e).__name__}@{tb.name}', repr(e), inputs)
        return
    calls = list(shims.SVD_CALLS)
    all_s = [x for (_, sv, _) in calls for x in sv]
    k = len(qb)
    if B0.shape != (d0, D0, k) or B1.shape != (d1, k, D2):
        fails.append(f'shapes {B0.shape} {B1.shape} do not match len(qbond) = {k}')
    elif calls and k and not zero_path(eng, all_s):
        Am = merge_mps_tensor_pair(B0, B1)
        # which singular values were kept?  B0/B1 carry them; identify through the error identity with every
        # subset being a path already (the truncation decisions are branches): use the weights rule directly
        w, winv, t = weights(eng, all_s)
        err = Sym()
        for idx in np.ndindex(*A0.shape):
            err = err + (S(A0[idx]) - S(Am[idx])).abs2()
        # kept / discarded set as decided by the truncation routine on this path (observer log)
        if len(RBI_LOG) != 1:
            fails.append('truncation routine was not called exactly once')
        else:
            given, idx = RBI_LOG[0]
            kept_ids = {id(given[i]) for i in idx}
            disc = [x for x in given if id(x) not in kept_ids]
            if len(idx) != k:
                fails.append('new bond dimension differs from the number of retained singular values')
            else:
                truncation_vcs(eng, acc, given, [given[i] for i in idx], tol, fails)
                dsq = sum_sq(disc)
                if prover.prove_escalating(eng, [err - dsq], rounds=(2, 3) if task['distr'] == 'sqrt' else (2,), acc=acc,
                                           label='vc_split_error', max_products=40000) != 'proved':
                    fails.append('||A - merge(A0, A1)||^2 differs from the discarded squared singular values')
                eng.mark('error_identity_checked')
        fails += sparsity_vcs(eng, acc, B0, [np.asarray(qd0, dtype=object), np.asarray(qD[0], dtype=object), -np.asarray(qb, dtype=object)], 'A0')
        fails += sparsity_vcs(eng, acc, B1, [np.asarray(qd1, dtype=object), np.asarray(qb, dtype=object), -np.asarray(qD[1], dtype=object)], 'A1')
    if not unchanged(snap):
        fails.append('split_mps_tensor modified its argument')
    acc.inc('nontrivial_paths')
    if fails:
        candidate(eng, acc, task, 'split_tol', 'split:' + fails[0][:40], '; '.join(fails), inputs)


def validate(seed, tier):
    rng = np.random.default_rng(seed)
    n = 0
    for trial in range(16):
        m, nn = int(rng.integers(1, 5)), int(rng.integers(1, 5))
        q0 = rng.integers(-1, 2, size=m); q1 = rng.integers(-1, 2, size=nn)
        A = np.where(np.add.outer(q0, -q1) == 0, rng.standard_normal((m, nn)), 0.0)
        tol = float(rng.choice([0.0, 0.05, 0.3, 0.7]))
        runner.concrete_check('svd_split', dict(A=A.tolist(), q0=q0.tolist(), q1=q1.tolist(), tol=tol))
        n += 1
    # SVD contract against LAPACK
    for trial in range(5):
        M = rng.standard_normal((3, 2))
        U, sv, V = np.linalg.svd(M, full_matrices=False) if False else shims._orig['svd'](M, full_matrices=False)
        if not (np.allclose(U.T @ U, np.eye(2)) and np.allclose(V @ V.T, np.eye(2)) and np.allclose((U * sv) @ V, M) and np.all(np.diff(sv) <= 0) and np.all(sv >= 0)):
            raise runner.HarnessError('LAPACK violates the SVD contract?')
    return dict(concrete_inputs_checked=n, svd_contract_validated=5)


def evidence(tier, seed, total, per_task, val):
    ts = tasks(tier, seed)
    return dict(
        level='other',
        coverage=dict(
            explanation='bounded symbolic execution of the real split_matrix_svd / retained_bond_indices / split_mps_tensor with symbolic '
                        'charges (patterns by z3 QF_LIA), entries and tolerance; LAPACK SVD replaced by its contract; the spectrum order across '
                        'blocks and every truncation outcome are paths (z3 QF_LRA on the linearised path condition, strengthened with products '
                        'of the sqrt / inverse definitions so that sum t_i = 1 is known); VCs: truncation rule on the normalised weights '
                        '(inequalities, QF_LRA), isometry, sparsity, error identity and exactness at tol = 0 (linearised ideal membership)',
            functions_encoded=['bond_ops.split_matrix_svd', 'bond_ops.retained_bond_indices', 'mps.split_mps_tensor', 'mps.merge_mps_tensor_pair'],
            bounds=dict(tasks=[(t['name']) for t in ts], tol='symbolic in [0, 1) (or concrete 0)', charges='symbolic integers in the symq tasks'),
            stubs=['np.linalg.svd contract', 'np.linalg.norm / sqrt contract', 'division -> Rabinowitsch inverse'],
            meta_arguments=['kept s_i > 0 is concluded from: s_i >= 0 (contract), t_i > 0 (QF_LRA), t_i w^2 = s_i^2 (ideal membership)',
                            'kept/discarded comparisons are stated on the normalised weights the code compares; the transfer to the singular '
                            'values uses t_i w^2 = s_i^2 with w > 0'],
            distinct_nontrivial=int(total.get('nontrivial_paths')),
            rule='one case = one feasible path (charge pattern x spectrum order x truncation outcome); non-trivial = at least one block SVD',
            obligations=int(total.get('vc_goals')),
            vc_results={k: int(v) for k, v in total.c.items() if k.startswith('vc_') and k.split('_')[-1] in ('proved', 'trivial', 'unknown', 'unproved', 'escalations')},
            samples=total.l.get('samples', []),
            exhaustive=False,
        ),
        assumptions=IDEALISATIONS + ['LAPACK SVD satisfies its contract (validated numerically each run)'],
    )


if __name__ == '__main__':
    runner.main('harness.c12')
