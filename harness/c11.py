"""
C11  Block-sparse QR is an exact, isometric, charge-respecting factorization.

Executes the unmodified pytenet.bond_ops.qr on a symbolic matrix with symbolic integer charges.
Every order/equality pattern of q0 u q1 is one path; on each path the charges stay symbolic integers and
the entries stay symbolic reals (complex in selected tasks).  np.linalg.qr is the contract stub.
"""
import itertools
import numpy as np

from harness.common import *
from harness import concrete
from symx import shims, prover, runner
from symx.engine import run_concrete
import pytenet.bond_ops as bond_ops

PID = 'C11'


def tasks(tier, seed):
    ts = []
    shapes = [(m, n) for m in (1, 2, 3) for n in (1, 2, 3)]
    for (m, n) in shapes:
        ts.append(dict(name=f'qr_real_{m}x{n}', m=m, n=n, cplx=False, cut=(6 if m + n >= 6 else None)))
    cshapes = [(1, 1), (1, 2), (2, 1), (2, 2)] if tier == 'quick' else [(m, n) for m in (1, 2, 3) for n in (1, 2, 3)]
    for (m, n) in cshapes:
        ts.append(dict(name=f'qr_cplx_{m}x{n}', m=m, n=n, cplx=True, cut=(6 if m + n >= 6 else None)))
    if tier == 'thorough':
        for (m, n) in [(1, 4), (4, 1), (2, 4), (4, 2), (3, 4), (4, 3)]:
            ts.append(dict(name=f'qr_real_{m}x{n}', m=m, n=n, cplx=False, cut=7))
    return ts


def required_marks(tier):
    return ['dummy_bond', 'multi_block', 'q0_needs_sort', 'q1_needs_sort', 'both_sorted', 'wide_block', 'tall_block',
            'empty_rows_or_cols']


def path(eng, acc, task):
    m, n, cplx = task['m'], task['n'], task['cplx']
    shims.reset_logs()
    q0 = eng.sym_array('q0', (m,), 'int')
    q1 = eng.sym_array('q1', (n,), 'int')
    A = sparse_tensor(eng, 'A', (m, n), [q0, -q1], cplx=cplx)
    inputs = dict(A=A.copy(), q0=q0.copy(), q1=q1.copy())
    snap = snapshot([A, q0, q1])
    fails = []
    try:
        Q, Rm, qi = bond_ops.qr(A, q0, q1)
    except Exception as e:
        reraise_internal(e)
        candidate(eng, acc, task, 'qr', f'qr:raises:{type(e).__name__}', repr(e), inputs)
        return
    k = len(qi)
    nblocks = sum(1 for s in shims.STUB_LOG if s[0] == 'qr')
    # --- classification of the path (reachability witnesses)
    im = eng.int_model()
    v0 = [int(S(x).cval()) if S(x).is_const() else None for x in q0]
    if im is not None:
        from symx.poly import peval
        c0 = [peval(S(x).t, im) for x in q0]; c1 = [peval(S(x).t, im) for x in q1]
        if list(np.argsort(c0, kind='mergesort')) != list(range(m)):
            eng.mark('q0_needs_sort')
        if list(np.argsort(c1, kind='mergesort')) != list(range(n)):
            eng.mark('q1_needs_sort')
        if list(np.argsort(c0, kind='mergesort')) == list(range(m)) and list(np.argsort(c1, kind='mergesort')) == list(range(n)):
            eng.mark('both_sorted')
        if set(c0) - set(c1) or set(c1) - set(c0):
            eng.mark('empty_rows_or_cols')
    if nblocks == 0:
        eng.mark('dummy_bond')
    if nblocks >= 2:
        eng.mark('multi_block')
    for s in shims.STUB_LOG:
        if s[0] == 'qr' and s[1][0] < s[1][1]:
            eng.mark('wide_block')
        if s[0] == 'qr' and s[1][0] > s[1][1]:
            eng.mark('tall_block')
    # --- VCs
    if Q.shape != (m, k) or Rm.shape != (k, n) or not (1 <= k <= min(m, n)):
        fails.append(f'shapes Q{Q.shape} R{Rm.shape} k={k}')
    else:
        prod = Q.dot(Rm)
        g_rec = [S(prod[i, j]) - S(inputs['A'][i, j]) for i in range(m) for j in range(n)]
        if prover.prove_escalating(eng, g_rec, rounds=(1, 2), acc=acc, label='vc_QR=A') != 'proved':
            fails.append('Q R = A not proved')
        G = Q.conj().T.dot(Q)
        g_iso = [S(G[a, b]) - (1 if a == b else 0) for a in range(k) for b in range(k)]
        if prover.prove_escalating(eng, g_iso, rounds=(1, 2), acc=acc, label='vc_QhQ=I') != 'proved':
            fails.append('Q^H Q = I not proved')
        fails += sparsity_vcs(eng, acc, Q, [inputs['q0'], -np.asarray(qi, dtype=object)], 'Q')
        fails += sparsity_vcs(eng, acc, Rm, [np.asarray(qi, dtype=object), -inputs['q1']], 'R')
        if nblocks == 0:
            if k != 1 or any(not is_structural_zero(x) for x in prod.reshape(-1)):
                fails.append('no common charge: expected intermediate dimension 1 and zero product')
        # vacuity canary on one path per task
        if nblocks >= 1 and acc.get('canary_checked') < 3:
            acc.inc('canary_checked')
            if not prover.canary(eng, g_iso[0] if g_iso else 0, rounds=2):
                fails.append('canary proved: hypotheses inconsistent (vacuous)')
    if not unchanged(snap):
        fails.append('input array modified')
    acc.inc('nontrivial_paths' if nblocks else 'dummy_paths')
    if acc.get('#samples') < 3:
        acc.add('samples', sample(eng, task, dict(k=k, qr_blocks=[s[1] for s in shims.STUB_LOG if s[0] == 'qr'])))
    if fails:
        candidate(eng, acc, task, 'qr', 'qr:' + fails[0][:40], '; '.join(fails), inputs)


def validate(seed, tier):
    """concrete inputs through the shimmed object-array path must satisfy the concrete property check and
    agree with plain NumPy on the real code"""
    rng = np.random.default_rng(seed)
    n_ok = 0
    for trial in range(12):
        m, n = rng.integers(1, 5), rng.integers(1, 5)
        q0 = rng.integers(-1, 2, size=m); q1 = rng.integers(-1, 2, size=n)
        A = np.where(np.add.outer(q0, -q1) == 0, rng.standard_normal((m, n)), 0.0)
        runner.concrete_check('qr', dict(A=A.tolist(), q0=q0.tolist(), q1=q1.tolist()))

        def shimmed(eng):
            Ao = shims.to_object(A)
            Q, Rm, qi = bond_ops.qr(Ao, np.array(q0, dtype=object), np.array(q1, dtype=object))
            return shims.to_numeric(Q), shims.to_numeric(Rm), [int(x) for x in qi]
        Q1, R1, qi1 = run_concrete(shimmed)
        Q2, R2, qi2 = bond_ops.qr(A, q0, q1)
        if Q1.shape != Q2.shape or not np.allclose(Q1 @ R1, Q2 @ R2, atol=1e-10) or list(qi1) != list(qi2):
            raise runner.HarnessError('shimmed path disagrees with plain NumPy path')
        n_ok += 1
    # charges that a double cannot represent (the symbolic charges are bounded by 2^40 so that replays fit int64; magnitudes
    # beyond 2^53 are exercised here, on the real code)
    big = [2 ** 53, 2 ** 53 + 1, -(2 ** 60) - 1, 2 ** 60 + 1, -(2 ** 53) - 1]
    for trial in range(6):
        m, n = int(rng.integers(2, 5)), int(rng.integers(2, 5))
        q0 = np.array([big[i] for i in rng.integers(0, len(big), size=m)], dtype=np.int64)
        q1 = np.array([big[i] for i in rng.integers(0, len(big), size=n)], dtype=np.int64)
        A = np.where(np.add.outer(q0, -q1) == 0, rng.standard_normal((m, n)), 0.0)
        runner.concrete_check('qr', dict(A=A.tolist(), q0=[int(x) for x in q0], q1=[int(x) for x in q1]))
        n_ok += 1
    return dict(random_concrete_inputs_agreeing=n_ok, of_which_with_charges_beyond_2_53=6)


def evidence(tier, seed, total, per_task, val):
    return dict(
        level='other',
        coverage=dict(
            explanation='bounded symbolic execution of the real pytenet.bond_ops.qr (dtype=object arrays of exact '
                        'polynomial scalars); every feasible path = one order/equality pattern of the symbolic integer '
                        'charges, decided by z3 QF_LIA; VCs (QR=A, Q^H Q=I, block sparsity, shapes, non-mutation) '
                        'discharged per path by z3 QF_LRA on linearised ideal membership modulo the LAPACK QR contract',
            functions_encoded=['pytenet.bond_ops.qr', 'pytenet.qnumber.is_qsparse', 'pytenet.qnumber.qnumber_outer_sum'],
            bounds=dict(shapes=sorted({(t['m'], t['n']) for t in tasks(tier, seed)}), charges='all integers (symbolic)',
                        entries='all reals; all complex numbers for the qr_cplx tasks'),
            stubs=['np.linalg.qr -> fresh Q,R with Q^H Q = I, QR = A, R upper triangular, Im R_ii = 0 (sign of R_ii free)'],
            distinct_nontrivial=int(total.get('nontrivial_paths')),
            rule='one case = one feasible path (distinct decision prefix); non-trivial = at least one block QR '
                 'stub call, so that at least one VC needs the solver; dummy-bond paths counted separately',
            dummy_bond_paths=int(total.get('dummy_paths')),
            obligations=int(total.get('vc_goals')),
            vc_results={k: int(v) for k, v in total.c.items() if k.startswith('vc_') and (k.endswith('proved') or k.endswith('trivial') or k.endswith('unknown'))},
            samples=total.l.get('samples', []),
            exhaustive=False,
        ),
        assumptions=IDEALISATIONS + ['LAPACK QR satisfies its contract (validated numerically on every run)'],
    )


if __name__ == '__main__':
    runner.main('harness.c11')
