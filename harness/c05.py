"""
C05  Operator chains compile to an equivalent operator graph and MPO.

Runs the unmodified OpChain.padded / OpGraph.from_opchains / minimum_vertex_cover / MPO.from_opgraph with
* every coefficient a symbolic real  (so "accumulate", "cancel", "equal to one", "zero" are all paths),
* every interleaved bond quantum number a symbolic integer,
over all chain-list skeletons in the stated bound (the skeleton is an engine choice inside the exploration).
Oracle: free-algebra word polynomials (refs/words.py) -- exact, no operator matrices involved.
Also provides the compactness VCs used by C20.
"""
import itertools
import numpy as np

from harness.common import *
from harness import concrete
from refs import words as W
from symx import shims, prover, runner
from symx.poly import Sym, S, Atom
from pytenet.opchain import OpChain
from pytenet.opgraph import OpGraph
from pytenet.mpo import MPO

PID = 'C05'


def chain_shapes(L):
    return [(s, l) for s in range(L) for l in range(1, L - s + 1)]


def tasks(tier, seed, pid='C05'):
    ts = []
    # (L, max chains, operator ids, ordered lists?)
    if tier == 'quick':
        plan = [(1, 3, (0, 1, 2), True), (2, 2, (0, 1, 2), True), (2, 3, (0, 1), True), (3, 2, (0, 1), True)]
    else:
        plan = [(1, 4, (0, 1, 2), True), (2, 3, (0, 1, 2), True), (3, 2, (0, 1, 2), True), (3, 3, (0, 1), False),
                (4, 2, (0, 1), True)]
    for (L, K, ids, ordered) in plan:
        for k in range(1, K + 1):
            for first in range(len(chain_shapes(L))):
                ts.append(dict(name=f'chains_L{L}_k{k}_ids{len(ids)}_first{first}', kind='chains', L=L, k=k, ids=ids,
                               ordered=ordered, first=first, charges=True, cut=None))
    # identity id different from 0 (the id 0 is then an ordinary operator): padding must use the id handed in
    for (L, K, ids, oid) in ([(2, 2, (0, 1, 2), 2), (3, 2, (0, 1), 1)] if tier == 'quick' else [(2, 3, (0, 1, 2), 2), (3, 2, (0, 1, 2), 1), (4, 2, (0, 1), 1)]):
        for k in range(1, K + 1):
            for first in range(len(chain_shapes(L))):
                ts.append(dict(name=f'chains_L{L}_k{k}_ids{len(ids)}_first{first}_ident{oid}', kind='chains', L=L, k=k, ids=ids,
                               ordered=True, first=first, charges=(L == 2), oid_identity=oid, cut=None))
    # zero charges: MPO conversion under a symbolic operator map for chains of every length
    zplan = [(2, 2, (0, 1, 2)), (3, 2, (0, 1))] if tier == 'quick' else [(2, 3, (0, 1, 2)), (3, 2, (0, 1, 2)), (3, 3, (0, 1)), (4, 2, (0, 1))]
    for (L, K, ids) in zplan:
        for k in range(1, K + 1):
            for first in range(len(chain_shapes(L))):
                ts.append(dict(name=f'chains0_L{L}_k{k}_ids{len(ids)}_first{first}', kind='chains', L=L, k=k, ids=ids,
                               ordered=True, first=first, charges=False, cut=None))
    # MPO conversion of ARBITRARY consistent layered graphs (parallel edges with equal operator ids, multi-operator edges, node ids
    # in arbitrary order across layers) -- not only of graphs that from_opchains produces
    for widths, fam in ([((), 'par'), ((1,), 'rich'), ((2,), 'rich'), ((1, 1), 'plain')] + ([] if tier == 'quick' else [((2, 1), 'plain'), ((1, 2), 'rich')])):
        for order in ('natural', 'reversed', 'interleaved'):
            ts.append(dict(name=f'opgraph_w{"".join(map(str, widths)) or "0"}_{fam}_{order}', kind='opgraph', widths=widths, fam=fam, order=order,
                           L=len(widths) + 1, k=0, ids=(0, 1), cut=4 if widths else None))
    # MPO conversion with charge-compatible operators (shift ids: 0 neutral, 1 raises, 2 lowers)
    for L in ((1, 2, 3) if tier == 'quick' else (1, 2, 3, 4)):
        for k in (1, 2):
            ts.append(dict(name=f'mpo_charges_L{L}_k{k}', kind='mpo_q', L=L, k=k, ids=(0, 1, 2)))
    return ts


def required_marks(tier):
    return ['identity_id_nonzero', 'coeff_zero_chain_dropped', 'trailing_coeff_absorbed', 'duplicate_chains', 'mpo_matrix_checked', 'nid_map_checked', 'parallel_edges_same_operator']


def build_skeleton(eng, task):
    L, k, ids = task['L'], task['k'], task['ids']
    shapes = chain_shapes(L)
    skel = []
    prev = None
    for c in range(k):
        if c == 0 and 'first' in task:
            si = task['first']
        else:
            si = eng.choose(len(shapes), f'shape{c}')
        s, l = shapes[si]
        oids = tuple(ids[eng.choose(len(ids), f'oid{c}_{i}')] for i in range(l))
        key = (si, oids)
        if not task.get('ordered', True) and prev is not None and key < prev:
            from symx.engine import DeadPath
            raise DeadPath()    # unordered lists: only non-decreasing skeleton order (stated reduction)
        prev = key
        skel.append((s, oids))
    return skel


def coeff_status(eng, c):
    k = eng.known(S(c) != 0)
    return k     # True: non-zero on this path, False: zero, None: undecided


def path_opgraph(eng, acc, task):
    from harness.c16 import gen_graph, graph_to_json
    widths = task['widths']
    nn = 2 + sum(widths)
    if task['order'] == 'natural':
        nids = list(range(nn))
    elif task['order'] == 'reversed':
        nids = list(reversed(range(nn)))
    else:
        nids = [(7 * i + 3) % (nn + 3) for i in range(nn)]
        if len(set(nids)) < nn:
            nids = [2 * i if i % 2 == 0 else 2 * nn - i for i in range(nn)]
    g, desc = gen_graph(eng, 'g', widths, task['fam'], nids=nids, qterm=(0, 0))
    for n in g.nodes.values():
        n.qnum = 0
    if not g.is_consistent():
        raise runner.HarnessError('generated graph inconsistent')
    words = W.graph_words(g)
    L = len(widths) + 1
    inputs = dict(graph=graph_to_json(g))
    fails = mpo_vcs(eng, acc, g, words, L, (0, 1), [0, 0])
    if any(len([e for e in g.edges.values() if e.nids == ed.nids and any(o1 == o2 for o1, _ in e.opics for o2, _ in ed.opics)]) > 1 for ed in g.edges.values()):
        eng.mark('parallel_edges_same_operator')
    acc.inc('nontrivial_paths')
    if fails:
        candidate(eng, acc, task, 'opgraph_mpo', 'opgraph:' + fails[0][:40], '; '.join(fails), inputs)


def path(eng, acc, task, focus='C05'):
    if task['kind'] == 'mpo_q':
        return path_mpo_q(eng, acc, task)
    if task['kind'] == 'opgraph':
        return path_opgraph(eng, acc, task)
    L = task['L']
    skel = build_skeleton(eng, task)
    chains = []
    for c, (s, oids) in enumerate(skel):
        if task.get('charges'):
            qn = [0] + [eng.sym(f'q{c}_{i}', 'int') for i in range(len(oids) - 1)] + [0]
        else:
            qn = [0] * (len(oids) + 1)
        chains.append(OpChain(list(oids), qn, eng.sym(f'c{c}'), s))
    oid_ident = task.get('oid_identity', 0)
    inputs = dict(L=L, oid_identity=oid_ident,
                  chains=[dict(oids=list(ch.oids), qnums=list(ch.qnums), coeff=ch.coeff, istart=ch.istart) for ch in chains])
    # the zero / non-zero pattern of the coefficients is decided here, independently of whether (and how) the code under
    # test looks at it (the unchanged code asks exactly these questions, so no extra paths arise)
    for ch in chains:
        bool(S(ch.coeff) == 0)
    ref = W.chains_words(chains, L, oid_ident)
    if oid_ident != 0:
        eng.mark('identity_id_nonzero')
    if len({(s, o) for s, o in skel}) < len(skel):
        eng.mark('duplicate_chains')
    fails = []
    try:
        g = OpGraph.from_opchains(chains, L, oid_ident)
    except Exception as e:
        reraise_internal(e)
        # allowed only if every coefficient is zero on this path (the identically-zero operator is excluded)
        if all(coeff_status(eng, ch.coeff) is False for ch in chains):
            acc.inc('all_zero_paths')
            return
        import traceback
        ln = traceback.extract_tb(e.__traceback__)[-1].lineno
        candidate(eng, acc, task, 'opchains', f'opchains:raises:{type(e).__name__}@{ln}', repr(e), inputs)
        return
    nz = [coeff_status(eng, ch.coeff) for ch in chains]
    if any(z is False for z in nz):
        eng.mark('coeff_zero_chain_dropped')
    if focus == 'C20':
        # compactness only: every layer width <= number of chains with non-zero coefficient
        n_nonzero = sum(1 for z in nz if z is not False)
        try:
            widths = W.layer_widths(g)
        except Exception as e:
            return
        acc.inc('c20_width_checks', len(widths))
        acc.inc('nontrivial_paths')
        eng.mark('chain_width_bound_checked')
        if acc.get('#samples') < 2 and len(chains) >= 2:
            acc.add('samples', sample(eng, task, dict(skeleton=[(s_, list(o)) for s_, o in skel], widths=widths, nonzero_chains=n_nonzero)))
        if any(w > max(n_nonzero, 1) for w in widths):
            candidate(eng, acc, task, 'opchains_c20', 'c20:width>chains', f'layer widths {widths} exceed the number of chains with non-zero coefficient ({n_nonzero})', inputs)
        return
    # was the trailing coefficient absorbed (single surviving pair at the last site with coefficient != 1)?
    last_edges = g.nodes[g.nid_terminal[1]].eids[0]
    if len(last_edges) == 1 and any(isinstance(c, Sym) and not c.is_const() for _, c in g.edges[last_edges[0]].opics):
        eng.mark('trailing_coeff_absorbed')
    try:
        ok_cons = g.is_consistent()
        glen = g.length
        got = W.graph_words(g)
    except Exception as e:
        candidate(eng, acc, task, 'opchains', f'opchains:graph-walk:{type(e).__name__}', repr(e), inputs)
        return
    if not ok_cons:
        fails.append('graph is not consistent')
    if glen != L:
        fails.append(f'graph length {glen} != {L}')
    if any(len(w) != L for w in got):
        fails.append('graph contains a path whose length differs from L')
    goals = [d for _, d in W.words_diff(got, ref)]
    if prover.prove_escalating(eng, goals, rounds=(1, 2), acc=acc, label='vc_words') != 'proved':
        fails.append('graph does not denote the sum of the padded chains')
    widths = W.layer_widths(g)
    # --- MPO conversion with a symbolic operator map (zero charges only; charged variant in mpo_q tasks)
    if not task.get('charges') or all(all(S(q).is_zero() for q in ch.qnums) for ch in chains):
        fails += mpo_vcs(eng, acc, g, got, L, task['ids'], [0, 0])
    acc.inc('nontrivial_paths' if len(chains) >= 1 and goals else 'trivial_paths')
    if acc.get('#samples') < 3 and len(chains) >= 2:
        acc.add('samples', sample(eng, task, dict(skeleton=[(s, list(o)) for s, o in skel], widths=widths,
                                                   words={str(w): repr(c) for w, c in list(got.items())[:4]})))
    if fails:
        sig = 'opchains:' + fails[0][:40]
        candidate(eng, acc, task, 'opchains', sig, '; '.join(fails), inputs)


def mpo_vcs(eng, acc, g, words, L, ids, qd, opmap=None):
    """MPO.from_opgraph(g).as_matrix() == sum_w coeff_w kron(opmap[w]) for a symbolic operator map"""
    fails = []
    d = len(qd)
    if opmap is None:
        opmap = {i: eng.sym_array(f'op{i}', (d, d)) for i in ids}
    try:
        mpo = MPO.from_opgraph(qd, g, opmap, compute_nid_map=True)
        M = mpo.as_matrix()
    except Exception as e:
        reraise_internal(e)
        return [f'from_opgraph raised {type(e).__name__}: {e}']
    ref = W.words_matrix(words, opmap, d)
    goals = [S(M[i, j]) - S(ref[i, j]) for i in range(M.shape[0]) for j in range(M.shape[1])]
    if prover.prove(eng, goals, rounds=1, acc=acc, label='vc_mpo_matrix') != 'proved':
        fails.append('MPO matrix differs from the operator denoted by the graph')
    eng.mark('mpo_matrix_checked')
    # bond quantum numbers come from the nodes; nid_map locates every node
    nm = mpo.nid_map
    if set(nm.keys()) != set(g.nodes.keys()):
        fails.append('nid_map does not cover exactly the graph nodes')
    else:
        atoms = []
        for nid, (l, i) in nm.items():
            if not (0 <= l < len(mpo.qD) and 0 <= i < len(mpo.qD[l])):
                fails.append(f'nid_map[{nid}] = {(l, i)} out of range')
                continue
            atoms.append(S(mpo.qD[l][i]) == S(g.nodes[nid].qnum))
        if len({v for v in nm.values()}) != len(nm):
            fails.append('nid_map maps two nodes to the same bond index')
        if prover.prove_int(eng, atoms, acc) != 'proved':
            fails.append('bond quantum number differs from the node quantum number at the nid_map position')
        if [len(q) for q in mpo.qD] != W.layer_widths(g) or mpo.bond_dims != W.layer_widths(g):
            fails.append('bond dimensions differ from the layer widths of the graph')
        eng.mark('nid_map_checked')
    if mpo.nsites != L:
        fails.append('MPO length differs')
    # the default call (no node map requested) must build the very same tensors and quantum numbers
    try:
        mpo0 = MPO.from_opgraph(qd, g, opmap)
        same = len(mpo0.A) == len(mpo.A) and all(a.shape == b.shape for a, b in zip(mpo0.A, mpo.A))
        if same:
            diffs = [S(x) - S(y) for a, b in zip(mpo0.A, mpo.A) for x, y in zip(a.reshape(-1), b.reshape(-1))
                     if not (is_structural_zero(x) and is_structural_zero(y))]
            same = prover.prove(eng, diffs, rounds=0, acc=acc, label='vc_mpo_default_call') == 'proved'
            qatoms = [S(x) == S(y) for q0, q1 in zip(mpo0.qD, mpo.qD) for x, y in zip(q0, q1)]
            same = same and [len(q) for q in mpo0.qD] == [len(q) for q in mpo.qD] and prover.prove_int(eng, qatoms, acc) == 'proved'
        if not same:
            fails.append('from_opgraph without compute_nid_map builds a different MPO than with it')
    except Exception as e:
        reraise_internal(e)
        fails.append(f'from_opgraph (default arguments) raised {type(e).__name__}: {e}')
    return fails


def path_mpo_q(eng, acc, task):
    """charge-compatible operators: qd = [0, g], op 1 raises (entry [1,0]), op 2 lowers (entry [0,1]), op 0 neutral"""
    L, k = task['L'], task['k']
    shapes = chain_shapes(L)
    gq = eng.sym('g', 'int')
    shift = {0: 0, 1: 1, 2: -1}
    chains = []
    skel = []
    for c in range(k):
        s, l = shapes[eng.choose(len(shapes), f'shape{c}')]
        oids = tuple(eng.choose(3, f'oid{c}_{i}') for i in range(l))
        if sum(shift[o] for o in oids) != 0:
            from symx.engine import DeadPath
            raise DeadPath()
        qn = [0]
        for o in oids:
            qn.append(qn[-1] + shift[o] * gq)
        chains.append(OpChain(list(oids), qn, eng.sym(f'c{c}'), s))
        skel.append((s, oids))
    inputs = dict(L=L, g=gq, chains=[dict(oids=list(ch.oids), qnums=list(ch.qnums), coeff=ch.coeff, istart=ch.istart) for ch in chains])
    try:
        g = OpGraph.from_opchains(chains, L, 0)
    except Exception as e:
        reraise_internal(e)
        if all(coeff_status(eng, ch.coeff) is False for ch in chains):
            return
        candidate(eng, acc, task, 'opchains_mpo', f'opchains_mpo:raises:{type(e).__name__}', repr(e), inputs)
        return
    got = W.graph_words(g)
    ref = W.chains_words(chains, L, 0)
    fails = []
    if prover.prove(eng, [d for _, d in W.words_diff(got, ref)], rounds=2, acc=acc, label='vc_words') != 'proved':
        fails.append('graph does not denote the sum of the padded chains')
    z = 0
    opmap = {0: np.array([[eng.sym('i00'), z], [z, eng.sym('i11')]], dtype=object),
             1: np.array([[z, z], [eng.sym('r10'), z]], dtype=object),
             2: np.array([[z, eng.sym('l01')], [z, z]], dtype=object)}
    qd = np.array([0, gq], dtype=object)
    fails += mpo_vcs(eng, acc, g, got, L, (0, 1, 2), qd, opmap)
    acc.inc('nontrivial_paths')
    if fails:
        candidate(eng, acc, task, 'opchains_mpo', 'opchains_mpo:' + fails[0][:40], '; '.join(fails), inputs)


def validate(seed, tier):
    rng = np.random.default_rng(seed)
    n = 0
    for _ in range(10):
        L = int(rng.integers(1, 5))
        chains = []
        for _c in range(int(rng.integers(1, 5))):
            s = int(rng.integers(0, L)); l = int(rng.integers(1, L - s + 1))
            chains.append(dict(oids=[int(x) for x in rng.integers(0, 3, size=l)], qnums=[0] * (l + 1),
                               coeff=float(rng.choice([-1.5, 0.0, 0.5, 1.0, 2.0])), istart=s))
        if all(c['coeff'] == 0 for c in chains):
            continue
        runner.concrete_check('opchains', dict(L=L, chains=chains))
        n += 1
    return dict(random_chain_lists_checked_concretely=n)


def evidence(tier, seed, total, per_task, val, pid='C05'):
    ts = tasks(tier, seed)
    return dict(
        level='other',
        coverage=dict(
            explanation='bounded symbolic execution of the real OpGraph.from_opchains / MPO.from_opgraph over all chain-list '
                        'skeletons in the bound; coefficients are symbolic reals (zero / cancelling / equal-to-one cases are '
                        'paths decided by z3 QF_LRA), interleaved charges symbolic integers (z3 QF_LIA); the word-coefficient '
                        'identities and the MPO matrix identity are discharged by z3 QF_LRA per path',
            functions_encoded=['OpChain.padded', 'OpGraph.from_opchains', '_site_partition_halfchains', 'minimum_vertex_cover',
                               'OpGraph.is_consistent', 'OpGraph.length', 'MPO.from_opgraph', 'MPO.as_matrix'],
            bounds=dict(plans=sorted({(t['L'], t['k'], len(t['ids'])) for t in ts if t['kind'] == 'chains'}),
                        opgraph_tasks=[t['name'] for t in ts if t['kind'] == 'opgraph'],
                        note='(L, number of chains, number of operator ids incl. the identity id); chains of every start site '
                             'and length 1..L, identity ids inside chains, duplicates, every list order unless stated',
                        mpo_with_charges=sorted({(t['L'], t['k']) for t in ts if t['kind'] == 'mpo_q'})),
            stubs=[],
            distinct_nontrivial=int(total.get('nontrivial_paths')),
            rule='one case = one feasible path = (chain-list skeleton, zero/non-zero and equality pattern of the symbolic '
                 'coefficients and charges); non-trivial = at least one word-coefficient goal',
            obligations=int(total.get('vc_goals')),
            vc_results={k: int(v) for k, v in total.c.items() if k.startswith('vc_') and k.split('_')[-1] in ('proved', 'trivial', 'unknown', 'unproved')},
            all_coefficients_zero_paths_excluded=int(total.get('all_zero_paths')),
            samples=total.l.get('samples', []),
            exhaustive=False,
        ),
        assumptions=IDEALISATIONS[:1] + ['leading/trailing chain quantum numbers are 0 (the documented usage)',
                                        'local operator maps: arbitrary real 2x2 matrices (symbolic); other physical dimensions outside'],
    )


if __name__ == '__main__':
    runner.main('harness.c05')
