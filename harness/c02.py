"""
C02  Quantum-number block sparsity is an invariant of every operation sequence.

Histories are handled by ONE INDUCTIVE STEP PER OPERATION: the pre-state is an arbitrary object satisfying the
representation invariant
    I(x):  qd and every qD[i] are NumPy arrays; len(qD[i]) equals the tensor dimension it labels on both neighbours;
           every tensor entry whose charges do not cancel is zero; outer bonds of an MPS have dimension 1
(symbolic integer charges, symbolic entries, sparsity layout by branching), one real operation is executed
(harness/ops.py) and I is re-established for every object it returns or overwrites; boundary charges are unchanged
for orthonormalize / compress / TDVP / DMRG whenever the state is not structurally zero.
"""
import numpy as np

from harness.common import *
from harness import concrete, tn, ops
from symx import shims, prover, runner, poly
from symx.engine import DeadPath
from symx.poly import Sym, S, SymDivisionByZero

PID = 'C02'


def tasks(tier, seed):
    return ops.op_tasks(tier)


def required_marks(tier):
    return ['op:constructor', 'op:orthonormalize', 'op:compress', 'op:binary', 'op:split', 'op:from_vector', 'op:tdvp', 'op:dmrg',
            'op:hamiltonian', 'boundary_checked', 'sparse_layout_nontrivial', 'followup_after_from_vector']


def op_candidate(eng, acc, task, sig, detail, focus):
    """candidate for concrete replay: the operation is re-run on seeded random concrete pre-states of the same shapes whose
    charges are taken from the z3 model of the integer path condition"""
    from symx.poly import VARS
    im = eng.int_model() or {}
    charges = {VARS[v]: int(val) for v, val in im.items()}
    insts = [dict(task=task, seed=k, focus=focus, charges=charges) for k in range(4)] + [dict(task=task, seed=k, focus=focus) for k in range(2)]
    acc.add('candidates', dict(task=task['name'], kind='op_step', sig=sig, detail=str(detail)[:300], decisions=[e[0] for e in eng.prefix][:60], insts=insts))
    if acc.get('#candidates') >= MAX_CANDIDATES_PER_JOB:
        from symx.engine import StopExploration
        raise StopExploration()


def structurally_nonzero_state(x, kind):
    try:
        dense = tn.dense_vec(x) if kind == 'mps' else list(tn.dense_mat(x).reshape(-1))
    except Exception:
        return True
    return any(not is_structural_zero(v) for v in dense)


def path(eng, acc, task):
    shims.reset_logs()
    from harness import c12
    c12.RBI_LOG.clear()
    op = task['op']
    fails = []
    rec = None
    try:
        rec = ops.OPS[op](eng, task)
        if rec.get('followup'):
            psi = rec['results'][0][0]
            eng.mark('followup_after_from_vector')
            if rec['followup'] == 'orthonormalize':
                psi.orthonormalize(mode='left')
            else:
                psi2 = psi + psi
                rec['results'].append((psi2, 'mps', 'from_vector + from_vector'))
    except DeadPath:
        raise
    except SymDivisionByZero:
        acc.inc('zero_state_paths')
        return
    except Exception as e:
        reraise_internal(e)
        import traceback
        tb = traceback.extract_tb(e.__traceback__)[-1]
        from harness import c12
        if op in ('compress', 'tdvp', 'dmrg') and isinstance(e, (AssertionError, IndexError, ValueError)) and \
                any(c12.zero_path(eng, given) for given, idx in c12.RBI_LOG if given):
            # the truncation routine took its norm(s) == 0 branch: zero state (bond of dimension 0), outside the property
            acc.inc('zero_state_paths')
            return
        op_candidate(eng, acc, task, f'op:{op}:raises:{type(e).__name__}@{tb.name}', repr(e), 'C02')
        return
    finally:
        poly.ABSTRACT[0] = None
    eng.mark('op:' + op)
    for (x, kind, name) in rec['results']:
        f = tn.invariant_fails(x, kind, name)
        fails += f
        if not f:
            fails += tn.sparsity_fails(eng, acc, x, kind, name)
            if any(any(is_structural_zero(v) for v in a.reshape(-1)) and any(not is_structural_zero(v) for v in a.reshape(-1)) for a in x.A):
                eng.mark('sparse_layout_nontrivial')
    if rec.get('boundary') is not None and not fails:
        x, old, nrm = rec['boundary']
        at = [S(a) == S(b) for a, b in zip(x.qD[0], old[0])] + [S(a) == S(b) for a, b in zip(x.qD[-1], old[1])]
        if len(x.qD[0]) != len(old[0]) or len(x.qD[-1]) != len(old[1]):
            fails.append('outer bond dimension changed')
        elif prover.prove_int(eng, at, acc) != 'proved':
            zero = nrm is not None and (S(nrm).is_zero() or eng.known(S(nrm) == 0) is True)
            if zero or rec.get('state_zero'):
                acc.inc('zero_state_paths_boundary')
            else:
                fails.append('leading/trailing bond quantum number changed although the input state is not structurally zero')
        eng.mark('boundary_checked')
    acc.inc('nontrivial_paths')
    if acc.get('#samples') < 4 and op in ('tdvp', 'binary', 'compress'):
        acc.add('samples', sample(eng, task, dict(op=op, bond_dims=[list(getattr(x, 'bond_dims', [])) for x, _, _ in rec['results'] if hasattr(x, 'bond_dims')])))
    if fails:
        op_candidate(eng, acc, task, f'op:{op}:' + fails[0][:50], '; '.join(fails), 'C02')


def validate(seed, tier):
    n = 0
    for t in ops.op_tasks('quick'):
        if t['op'] in ('hamiltonian',) and t.get('model') in ('molecular', 'spin_molecular') and not t.get('optimize', True) and t['L'] > 4:
            continue
        runner.concrete_check('op_step', dict(task=t, seed=seed, focus='C02'))
        n += 1
    return dict(concrete_operation_steps_checked=n)


def evidence(tier, seed, total, per_task, val):
    ts = tasks(tier, seed)
    return dict(
        level='other',
        coverage=dict(
            explanation='one inductive step per public operation from an arbitrary symbolic pre-state satisfying the representation invariant: '
                        'the real operation is executed symbolically (charges symbolic integers, entries symbolic; QR/SVD contracts; TDVP/DMRG with '
                        'a Krylov-space stub for the local solver) and the invariant is re-established on every path -- type and length checks are '
                        'concrete, block sparsity of every structurally non-zero entry and preservation of the boundary charges are decided by '
                        'z3 QF_LIA under the path condition',
            functions_encoded=['MPS.__init__', 'MPO.__init__', 'MPS.orthonormalize', 'MPO.orthonormalize', 'MPS.compress', 'add_mps', 'add_mpo', 'multiply_mpo',
                               'apply_operator', 'split_mps_tensor', 'MPS.from_vector', 'integrate_local_singlesite', 'integrate_local_twosite',
                               'calculate_ground_state_local_singlesite', 'calculate_ground_state_local_twosite', 'MPO.from_opgraph', 'MPO.identity',
                               'all Hamiltonian constructors', 'bond_ops.qr', 'bond_ops.split_matrix_svd'],
            bounds=dict(tasks=[t['name'] for t in ts], note='L <= 2 quick (3 thorough), d = 2 (4 with encoded charge pairs), D <= 2, MPO bond <= 2'),
            stubs=['np.linalg.qr / svd / norm contracts', 'expm_krylov / eigh_krylov -> arbitrary element c0 v + c1 A v of the Krylov space (numiter 2)',
                   'crandn -> fresh symbols', 'let-abstraction above 120 monomials inside TDVP / DMRG'],
            induction='any history all of whose intermediate objects stay inside the shape bound preserves the invariant; sums and products grow '
                      'bond dimensions, so long histories leave the bound (outside the claim)',
            distinct_nontrivial=int(total.get('nontrivial_paths')),
            rule='one case = one feasible path of one operation step (operation x shapes x charge pattern x sign / truncation branches)',
            zero_state_paths=int(total.get('zero_state_paths') + total.get('zero_state_paths_boundary')),
            obligations=int(total.get('vc_goals') + total.get('vc_int_queries')),
            vc_results={k: int(v) for k, v in total.c.items() if k.startswith('vc_') and k.split('_')[-1] in ('proved', 'trivial', 'unknown', 'unproved', 'queries')},
            samples=total.l.get('samples', []),
            exhaustive=False,
        ),
        assumptions=IDEALISATIONS + ['the Hamiltonian of TDVP / DMRG is an arbitrary block-sparse MPO with zero boundary charges (asserted by the integrators)',
                                    'replays of candidates re-run the operation on seeded random concrete pre-states of the same shapes'],
    )


if __name__ == '__main__':
    runner.main('harness.c02')
