"""
C17  Operator trees and state automata unfold to graphs with the same meaning.

* trees: skeletons (branching, heights, leaves at different depths, start sites, tree lists) are engine choices;
  coefficients symbolic reals, node quantum numbers symbolic integers;  OpGraph.from_optrees vs the sum over
  root-to-leaf paths padded with identities.
* automata: node/edge structure, site-dependent `active` and `opics` callables are engine choices, coefficients
  symbolic per (edge, site);  OpGraph.from_automaton vs a site-by-site DP over automaton paths.
* dense meaning: OpChain.as_matrix / OpTree.as_matrix / OpGraph.as_matrix (both directions) vs the word semantics
  under a symbolic 2x2 operator map.
"""
import itertools
import numpy as np

from harness.common import *
from harness import concrete
from refs import words as W
from symx import shims, prover, runner
from symx.engine import DeadPath
from symx.poly import Sym, S
from pytenet.opchain import OpChain
from pytenet.optree import OpTree, OpTreeNode, OpTreeEdge
from pytenet.autop import AutOp, AutOpNode, AutOpEdge
from pytenet.opgraph import OpGraph

PID = 'C17'
IDENT = 0


def tasks(tier, seed):
    ts = []
    q = tier == 'quick'
    for L in (1, 2, 3) if q else (1, 2, 3, 4):
        for ntrees in (1, 2):
            if L >= 3 and ntrees == 2 and q:
                continue
            for istart in range(L):
                ts.append(dict(name=f'trees_L{L}_n{ntrees}_s{istart}', kind='trees', L=L, ntrees=ntrees, istart0=istart,
                               maxh=min(3, L), cut=5))
    # longer chains with small trees: identity padding strings of length >= 3 only exist for L >= 4
    for L in (4, 5) if q else (4, 5, 6):
        for istart in range(L):
            ts.append(dict(name=f'trees_L{L}_n1_s{istart}_small', kind='trees', L=L, ntrees=1, istart0=istart, maxh=2, edges=2, cut=5))
    # identity id different from 0 (padding must use the id handed in; the id 0 is then an ordinary operator)
    for L in (2, 3, 4):
        for istart in range(L):
            ts.append(dict(name=f'trees_L{L}_n1_s{istart}_ident1', kind='trees', L=L, ntrees=1, istart0=istart, maxh=2, edges=2, oid_identity=1, cut=5))
    if not q:
        for istart in range(5):
            ts.append(dict(name=f'trees_L5_n1_s{istart}_e3', kind='trees', L=5, ntrees=1, istart0=istart, maxh=3, edges=3, cut=5))
            ts.append(dict(name=f'trees_L5_n1_s{istart}_e4', kind='trees', L=5, ntrees=1, istart0=istart, maxh=4, edges=4, cut=5))
            ts.append(dict(name=f'trees_L5_n2_s{istart}_e2', kind='trees', L=5, ntrees=2, istart0=istart, maxh=2, edges=2, cut=5))
    for L in (1, 2, 3) if q else (1, 2, 3, 4):
        ts.append(dict(name=f'autstruct_L{L}', kind='aut_struct', L=L, max_edges=4 if q else 5, cut=5))
        ts.append(dict(name=f'autsite_L{L}', kind='aut_site', L=L, cut=5))
    for kind in ('chain', 'tree', 'graph'):
        ts.append(dict(name=f'dense_{kind}', kind='dense_' + kind, cut=4))
    return ts


def required_marks(tier):
    return ['aut_nodes_out_of_id_order', 'identity_id_nonzero', 'tree_leaf_padded', 'tree_leaf_at_terminal', 'tree_list_of_two', 'aut_dead_state_pruned', 'aut_no_path_rejected',
            'aut_self_loop', 'aut_parallel_edges', 'aut_site_dependent', 'dense_tree_mixed_heights', 'dense_graph_dir0']


# ------------------------------------------------------------------------------------------------ trees

def gen_subtree(eng, tag, depth_left, counter, budget=None):
    """returns OpTreeNode; depth_left = maximal remaining height; budget = [remaining number of edges]"""
    if budget is None:
        budget = [4]
    qn = eng.sym(f'{tag}q{counter[0]}', 'int'); counter[0] += 1
    if depth_left == 0 or budget[0] <= 0:
        return OpTreeNode([], qn)
    nchild = eng.choose(min(3, budget[0] + 1), f'{tag}nch')       # 0 (leaf), 1 or 2 children
    budget[0] -= nchild
    children = []
    for c in range(nchild):
        oid = eng.choose(2, f'{tag}oid')        # ids {0 (identity id), 1}
        coeff = eng.sym(f'{tag}c{counter[0]}'); counter[0] += 1
        children.append(OpTreeEdge(oid, coeff, gen_subtree(eng, tag, depth_left - 1, counter, budget)))
    return OpTreeNode(children, qn)


def tree_to_json(node):
    return dict(qnum=node.qnum, children=[dict(oid=e.oid, coeff=e.coeff, node=tree_to_json(e.node)) for e in node.children])


def constrain_tree_charges(eng, node, dist_to_terminal, is_root_at_start):
    """documented precondition: a node coinciding with a terminal node of the graph carries quantum number 0"""
    if is_root_at_start or dist_to_terminal == 0:
        eng.assume(S(node.qnum) == 0)
    for e in node.children:
        constrain_tree_charges(eng, e.node, dist_to_terminal - 1, False)


def path_trees(eng, acc, task):
    L = task['L']
    trees = []
    for t in range(task['ntrees']):
        istart = task['istart0'] if t == 0 else eng.choose(L, 'istart')
        maxh = min(task['maxh'], L - istart)
        root = gen_subtree(eng, f't{t}', maxh, [0], [task.get('edges', 4) if task['ntrees'] == 1 else task.get('edges2', 2)])
        if root.is_leaf():
            raise DeadPath()     # a tree without edges denotes nothing (excluded)
        constrain_tree_charges(eng, root, L - istart, istart == 0)
        trees.append(OpTree(root, istart))
    if len(trees) == 2:
        eng.mark('tree_list_of_two')
    ident = task.get('oid_identity', IDENT)
    if ident != 0:
        eng.mark('identity_id_nonzero')
    inputs = dict(L=L, oid_identity=ident, trees=[dict(istart=t.istart, root=tree_to_json(t.root)) for t in trees])
    ref = W.trees_words(trees, L, ident)
    for t in trees:
        for w in W.tree_words(t.root):
            eng.mark('tree_leaf_at_terminal' if len(w) == L - t.istart else 'tree_leaf_padded')
    fails = []
    try:
        g = OpGraph.from_optrees(trees, L, ident)
    except Exception as e:
        reraise_internal(e)
        import traceback
        ln = traceback.extract_tb(e.__traceback__)[-1].lineno
        candidate(eng, acc, task, 'optrees', f'optrees:raises:{type(e).__name__}@{ln}', repr(e), inputs)
        return
    finish_graph_vcs(eng, acc, task, g, ref, L, 'optrees', inputs, fails)


def finish_graph_vcs(eng, acc, task, g, ref, L, kind, inputs, fails):
    try:
        cons = g.is_consistent()
        glen = g.length
        got = W.graph_words(g)
    except Exception as e:
        candidate(eng, acc, task, kind, f'{kind}:walk:{type(e).__name__}', repr(e), inputs)
        return
    if not cons:
        fails.append('graph not consistent')
    if glen != L or any(len(w) != L for w in got):
        fails.append(f'graph length {glen} != {L}')
    # no dangling / unreachable nodes
    reach = set()
    stack = [g.nid_terminal[0]]
    while stack:
        n = stack.pop()
        if n in reach:
            continue
        reach.add(n)
        for eid in g.nodes[n].eids[1]:
            stack.append(g.edges[eid].nids[1])
    if len(reach) != len(g.nodes):
        fails.append('graph contains nodes that are not reachable from the start node')
    goals = [d for _, d in W.words_diff(got, ref)]
    if prover.prove_escalating(eng, goals, rounds=(1, 2, 3), acc=acc, label='vc_words') != 'proved':
        fails.append('graph does not denote the reference operator')
    acc.inc('nontrivial_paths')
    if acc.get('#samples') < 4 and len(ref) >= 2:
        acc.add('samples', sample(eng, task, dict(words={str(w): repr(c) for w, c in list(ref.items())[:4]}, nodes=len(g.nodes), edges=len(g.edges))))
    if fails:
        candidate(eng, acc, task, kind, f'{kind}:' + fails[0][:40], '; '.join(fails), inputs)


# ------------------------------------------------------------------------------------------------ automata

ACT = ['true', 'first_only', 'not_first', 'last_only', 'never']


def act_fn(code, L):
    return {'true': True, 'never': False, 'first_only': (lambda i: i == 0), 'not_first': (lambda i: i != 0),
            'last_only': (lambda i: i == L - 1)}[code]


def act_val(code, i, L):
    return {'true': True, 'never': False, 'first_only': i == 0, 'not_first': i != 0, 'last_only': i == L - 1}[code]


def aut_reference(nodes, edges, term, L):
    """DP over sites: dict node -> {word: coeff}; edges: list of (a, b, act_code, coeffs_per_site[list of (oid, c)])"""
    cur = {term[0]: {(): 1}}
    for i in range(L):
        nxt = {}
        for (a, b, act, opics_by_site) in edges:
            if a not in cur or not act_val(act, i, L):
                continue
            for w, c in cur[a].items():
                for oid, cc in opics_by_site[i]:
                    W.wadd(nxt.setdefault(b, {}), w + (int(oid),), c * cc)
        cur = nxt
    return cur.get(term[1], {})


def build_autop(eng, nn, edges, term, qn, L, node_order=None):
    nodes = [AutOpNode(i, [], [], qn[i]) for i in (node_order or range(nn))]
    aut = AutOp(nodes, [], term)
    for eid, (a, b, act, opics_by_site, site_dep) in enumerate(edges):
        if site_dep:
            opics = (lambda tbl: (lambda i: tbl[i]))(opics_by_site)
        else:
            opics = opics_by_site[0]
        aut.add_connect_edge(AutOpEdge(eid, [a, b], opics, act_fn(act, L)))
    return aut


def path_aut(eng, acc, task):
    L = task['L']
    nn = 3
    # the order in which the nodes are handed to AutOp and which ids are terminal are arbitrary input
    node_order = [[0, 1, 2], [2, 1, 0], [1, 2, 0]][eng.choose(3, 'node_order')]
    term = [[0, 1], [2, 0]][eng.choose(2, 'terminals')]
    if node_order != [0, 1, 2]:
        eng.mark('aut_nodes_out_of_id_order')
    qn = [eng.sym(f'q{i}', 'int') for i in range(nn)]
    pairs = [(a, b) for a in range(nn) for b in range(nn)]
    edges = []
    if task['kind'] == 'aut_struct':
        # every subset of ordered pairs (self loops included) up to max_edges, optionally one doubled edge
        for (a, b) in pairs:
            k = eng.choose(3 if len(edges) + 2 <= task['max_edges'] else (2 if len(edges) + 1 <= task['max_edges'] else 1), f'e{a}{b}')
            for j in range(k):
                oid = eng.choose(2, 'oid')
                c = eng.sym(f'c{len(edges)}')
                edges.append((a, b, 'true', [[(oid, c)]] * L, False))
    else:
        # Ising-like skeletons with site-dependent activity and coefficients
        skel = eng.choose(3, 'skel')
        base = [[(0, 0), (1, 1), (0, 2), (2, 1), (0, 1)],
                [(0, 0), (1, 1), (0, 1), (0, 1)],
                [(0, 2), (2, 2), (2, 1), (0, 1)]][skel]
        site_dep = eng.choose(2, 'sitedep') == 1
        for k_, (a, b) in enumerate(base):
            # site-dependent activity on the two edges that leave the start node last (the others are always active)
            act = ACT[eng.choose(len(ACT), 'act')] if k_ >= len(base) - 2 else 'true'
            oid = 0 if a == b else 1
            if site_dep:
                tbl = [[(oid, eng.sym(f'c{len(edges)}_{i}'))] for i in range(L)]
                eng.mark('aut_site_dependent')
            else:
                tbl = [[(oid, eng.sym(f'c{len(edges)}'))]] * L
            edges.append((a, b, act, tbl, site_dep))
    if not edges:
        raise DeadPath()
    if any(a == b for a, b, *_ in edges):
        eng.mark('aut_self_loop')
    if len({(a, b) for a, b, *_ in edges}) < len(edges):
        eng.mark('aut_parallel_edges')
    ref = aut_reference(range(nn), [(a, b, act, tbl) for a, b, act, tbl, _ in edges], term, L)
    inputs = dict(L=L, nn=nn, term=term, qnums=list(qn), node_order=node_order,
                  edges=[dict(a=a, b=b, act=act, site_dep=sd, opics=[[[o, c] for o, c in site] for site in tbl]) for a, b, act, tbl, sd in edges])
    try:
        aut = build_autop(eng, nn, edges, term, qn, L, node_order)
        if not aut.is_consistent():
            raise runner.HarnessError('generated automaton inconsistent')
        g = OpGraph.from_automaton(aut, L)
    except Exception as e:
        reraise_internal(e)
        if not ref:
            eng.mark('aut_no_path_rejected')      # no automaton path of this length: outside the property
            acc.inc('no_path_inputs')
            return
        import traceback
        ln = traceback.extract_tb(e.__traceback__)[-1].lineno
        candidate(eng, acc, task, 'automaton', f'automaton:raises:{type(e).__name__}@{ln}', repr(e), inputs)
        return
    fails = []
    if not ref:
        fails.append('automaton admits no path of the requested length but a graph was returned')
    # dead states: automaton nodes reachable but not co-reachable must not appear
    used_layers = W.layer_widths(g)
    live = live_profile(nn, edges, term, L)
    if used_layers != [len(s) for s in live]:
        fails.append(f'layer widths {used_layers} differ from the number of live automaton states {[len(s) for s in live]}')
    fwd = forward_profile(nn, edges, term, L)
    if any(len(f) > len(l) for f, l in zip(fwd, live)):
        eng.mark('aut_dead_state_pruned')
    # node charges are taken from the automaton nodes
    finish_graph_vcs(eng, acc, task, g, ref, L, 'automaton', inputs, fails)


def forward_profile(nn, edges, term, L):
    cur = {term[0]}; out = [set(cur)]
    for i in range(L):
        cur = {b for a, b, act, *_ in edges if a in cur and act_val(act, i, L)}
        out.append(set(cur))
    return out


def live_profile(nn, edges, term, L):
    fwd = forward_profile(nn, edges, term, L)
    cur = {term[1]}; back = [set(cur)]
    for i in reversed(range(L)):
        cur = {a for a, b, act, *_ in edges if b in cur and act_val(act, i, L)}
        back.insert(0, set(cur))
    return [f & b for f, b in zip(fwd, back)]


# ------------------------------------------------------------------------------------------------ dense meaning

def words_matrix_padded(words, opmap, d, height):
    """like W.words_matrix but shorter words are padded with true identities up to `height`"""
    padded = {}
    for w, c in words.items():
        W.wadd(padded, tuple(w) + ('I',) * (height - len(w)), c)
    om = dict(opmap)
    I = np.empty((d, d), dtype=object); I.fill(0)
    for i in range(d):
        I[i, i] = 1
    om['I'] = I
    return W.words_matrix(padded, om, d)


def path_dense(eng, acc, task):
    d = 2
    opmap = {i: eng.sym_array(f'op{i}', (d, d)) for i in (0, 1)}
    fails = []
    kind = task['kind']
    inputs = dict(kind=kind)
    if kind == 'dense_chain':
        n = 1 + eng.choose(3, 'len')
        oids = [eng.choose(2, 'oid') for _ in range(n)]
        ch = OpChain(oids, [0] * (n + 1), eng.sym('c'), 0)
        inputs.update(oids=oids, coeff=ch.coeff)
        M = ch.as_matrix(opmap)
        ref = W.words_matrix({tuple(oids): ch.coeff}, opmap, d)
    elif kind == 'dense_tree':
        root = gen_subtree(eng, 't', 3, [0], [4])
        if root.is_leaf():
            raise DeadPath()
        tree = OpTree(root, 0)
        inputs.update(root=tree_to_json(root))
        h = tree.height()
        words = W.tree_words(root)
        if len({len(w) for w in words}) > 1:
            eng.mark('dense_tree_mixed_heights')
        if h != max(len(w) for w in words):
            fails.append(f'height() = {h} differs from the longest root-to-leaf path')
        M = tree.as_matrix(opmap)
        ref = words_matrix_padded(words, opmap, d, h)
    else:
        from harness.c16 import gen_graph, graph_to_json
        widths = [(), (1,), (2,), (1, 1)][eng.choose(4, 'widths')]
        g, _ = gen_graph(eng, 'g', widths, 'rich' if len(widths) <= 1 else 'plain')
        direction = eng.choose(2, 'dir')
        if direction == 0:
            eng.mark('dense_graph_dir0')
        inputs.update(graph=graph_to_json(g), direction=direction)
        M = g.as_matrix(opmap, direction)
        ref = W.words_matrix(W.graph_words(g), opmap, d)
    M = np.asarray(M, dtype=object)
    if M.shape != ref.shape:
        fails.append(f'matrix shape {M.shape} != {ref.shape}')
    else:
        goals = [S(M[i, j]) - S(ref[i, j]) for i in range(M.shape[0]) for j in range(M.shape[1])]
        if prover.prove(eng, goals, rounds=1, acc=acc, label='vc_dense') != 'proved':
            fails.append(f'{kind}: as_matrix differs from the word semantics')
    acc.inc('nontrivial_paths')
    if fails:
        candidate(eng, acc, task, 'dense_meaning', f'{kind}:' + fails[0][:40], '; '.join(fails), inputs)


def path(eng, acc, task):
    k = task['kind']
    if k == 'trees':
        return path_trees(eng, acc, task)
    if k.startswith('aut'):
        return path_aut(eng, acc, task)
    return path_dense(eng, acc, task)


def validate(seed, tier):
    n = 0
    leaf = lambda: dict(qnum=0, children=[])
    t1 = dict(istart=0, root=dict(qnum=0, children=[dict(oid=1, coeff=0.5, node=dict(qnum=0, children=[dict(oid=1, coeff=2.0, node=leaf())])),
                                                    dict(oid=0, coeff=-1.0, node=leaf())]))
    t2 = dict(istart=1, root=dict(qnum=0, children=[dict(oid=1, coeff=3.0, node=leaf())]))
    runner.concrete_check('optrees', dict(L=3, trees=[t1, t2]))
    aut = dict(L=3, nn=3, term=[0, 1], qnums=[0, 0, 0], edges=[
        dict(a=0, b=0, act='true', site_dep=False, opics=[[[0, 1.0]]] * 3), dict(a=1, b=1, act='true', site_dep=False, opics=[[[0, 1.0]]] * 3),
        dict(a=0, b=2, act='true', site_dep=False, opics=[[[1, 0.7]]] * 3), dict(a=2, b=1, act='not_first', site_dep=False, opics=[[[1, 1.0]]] * 3),
        dict(a=0, b=1, act='true', site_dep=True, opics=[[[1, 0.1]], [[1, 0.2]], [[1, 0.3]]])])
    runner.concrete_check('automaton', aut)


def evidence(tier, seed, total, per_task, val):
    ts = tasks(tier, seed)
    return dict(
        level='other',
        coverage=dict(
            explanation='bounded symbolic execution of OpGraph.from_optrees / from_automaton and of the as_matrix methods over tree and '
                        'automaton skeletons generated inside the exploration; coefficients symbolic reals, node charges symbolic '
                        'integers (equality tests in simplify decided by z3 QF_LRA / QF_LIA); word-polynomial and dense-matrix identities '
                        'discharged by z3 QF_LRA per path',
            functions_encoded=['OpGraph.from_optrees', 'OpGraph._insert_subtree', 'OpGraph._insert_opchain', 'OpGraph.simplify',
                               'OpGraph.from_automaton', 'OpChain.as_matrix', 'OpTree.as_matrix', 'OpTree.height', 'OpGraph.as_matrix'],
            bounds=dict(trees='height <= min(3, L - istart), branching <= 2, <= 4 edges per tree (<= 2 per tree in lists of two), operator ids {0 (identity id), 1}, lists of <= 2 trees, L <= %d' % (3 if tier == 'quick' else 4),
                        automata='3 nodes; structure tasks: every multiset of <= %d edges over the 9 ordered pairs (<= 2 per pair), always active; '
                                 'site tasks: 3 Ising-like skeletons x 5 activity patterns x static/site-dependent coefficients per edge; L <= %d' % (4 if tier == 'quick' else 5, 3 if tier == 'quick' else 4),
                        dense='chains of length <= 3, trees of height <= 3, layered graphs with inner widths (), (1), (2), (1,1); 2x2 symbolic operator map'),
            stubs=[],
            distinct_nontrivial=int(total.get('nontrivial_paths')),
            rule='one case = one feasible path (skeleton x equality pattern of coefficients/charges); inputs without any automaton path '
                 'of the requested length are counted separately and are outside the property',
            no_path_inputs=int(total.get('no_path_inputs')),
            obligations=int(total.get('vc_goals')),
            vc_results={k: int(v) for k, v in total.c.items() if k.startswith('vc_') and k.split('_')[-1] in ('proved', 'trivial', 'unknown', 'unproved')},
            samples=total.l.get('samples', []),
            exhaustive=False,
        ),
        assumptions=IDEALISATIONS[:1] + ['tree nodes that coincide with a terminal node of the graph carry quantum number 0 (else from_optrees raises RuntimeError by design)'],
    )


if __name__ == '__main__':
    runner.main('harness.c17')
