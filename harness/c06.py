"""
C06  Built-in lattice Hamiltonians equal their textbook definitions.

Runs the six public constructors end to end (automaton / chains / hand-built graph -> from_opgraph ->
as_matrix) with every parameter a symbolic real (complex for the coefficient vector of the linear fermionic
operator).  The zero / non-zero combinations of the couplings are paths; on each path the dense matrix is
compared entry by entry with the textbook formula (refs/models.py) for all remaining parameter values.
"""
import itertools
import numpy as np

from harness.common import *
from harness import concrete
from refs import models as Mo
from symx import shims, prover, runner
from symx.poly import Sym, S, VARS, VROLE, VKIND
import pytenet as ptn

PID = 'C06'

MODELS = {
    'ising':                dict(fn=lambda L, p, d: ptn.ising_mpo(L, *p), ref=lambda L, p, d: Mo.ising(L, *p), params=('J', 'h', 'g'), d=2),
    'heisenberg_xxz':       dict(fn=lambda L, p, d: ptn.heisenberg_xxz_mpo(L, *p), ref=lambda L, p, d: Mo.heisenberg_xxz(L, *p), params=('J', 'D', 'h'), d=2),
    'heisenberg_xxz_spin1': dict(fn=lambda L, p, d: ptn.heisenberg_xxz_spin1_mpo(L, *p), ref=lambda L, p, d: Mo.heisenberg_xxz_spin1(L, *p), params=('J', 'D', 'h'), d=3),
    'bose_hubbard':         dict(fn=lambda L, p, d: ptn.bose_hubbard_mpo(d, L, *p), ref=lambda L, p, d: Mo.bose_hubbard(d, L, *p), params=('t', 'U', 'mu'), d=None),
    'fermi_hubbard':        dict(fn=lambda L, p, d: ptn.fermi_hubbard_mpo(L, *p), ref=lambda L, p, d: Mo.fermi_hubbard(L, *p), params=('t', 'U', 'mu'), d=4),
}


def tasks(tier, seed):
    ts = []
    q = tier == 'quick'
    for L in (1, 2, 3, 4, 5, 6, 7, 8) if q else (1, 2, 3, 4, 5, 6, 7, 8, 9, 10):
        ts.append(dict(name=f'ising_L{L}', model='ising', L=L, d=2))
        ts.append(dict(name=f'heisenberg_xxz_L{L}', model='heisenberg_xxz', L=L, d=2))
    for L in (1, 2, 3, 4, 5) if q else (1, 2, 3, 4, 5, 6):
        ts.append(dict(name=f'heisenberg_xxz_spin1_L{L}', model='heisenberg_xxz_spin1', L=L, d=3))
    for d in (1, 2, 3, 4):
        for L in (1, 2, 3):
            ts.append(dict(name=f'bose_hubbard_d{d}_L{L}', model='bose_hubbard', L=L, d=d))
    ts.append(dict(name='bose_hubbard_d2_L5', model='bose_hubbard', L=5, d=2))
    ts.append(dict(name='bose_hubbard_d3_L4', model='bose_hubbard', L=4, d=3))
    ts.append(dict(name='bose_hubbard_d5_L2', model='bose_hubbard', L=2, d=5))
    ts.append(dict(name='bose_hubbard_d2_L6', model='bose_hubbard', L=6, d=2))
    if not q:
        ts.append(dict(name='bose_hubbard_d2_L8', model='bose_hubbard', L=8, d=2))
        ts.append(dict(name='bose_hubbard_d4_L4', model='bose_hubbard', L=4, d=4))
        ts.append(dict(name='bose_hubbard_d6_L2', model='bose_hubbard', L=2, d=6))
        ts.append(dict(name='bose_hubbard_d3_L5', model='bose_hubbard', L=5, d=3))
    for L in (1, 2, 3, 4) if q else (1, 2, 3, 4, 5):
        ts.append(dict(name=f'fermi_hubbard_L{L}', model='fermi_hubbard', L=L, d=4))
    for L in (1, 2, 3, 4, 5, 6, 7, 8) if q else (1, 2, 3, 4, 5, 6, 7, 8, 9, 10):
        for ft in ('c', 'a'):
            ts.append(dict(name=f'linear_fermionic_{ft}_L{L}', model='linear_fermionic', L=L, d=2, ftype=ft))
    return ts


def required_marks(tier):
    return ['some_coupling_zero', 'all_couplings_nonzero', 'hermitian_checked', 'L1_model', 'tolerance_route_or_exact']


def charge_vcs(model, mpo, M, d, L):
    """block sparsity of all tensors under (qd, qD); qd separates exactly the physical quantum numbers"""
    fails = []
    qd = [int(x) for x in mpo.qd]
    phys = Mo.phys_qnums(model, d)
    for s, t in itertools.product(range(d), repeat=2):
        if (qd[s] == qd[t]) != (phys[s] == phys[t]):
            fails.append(f'physical quantum numbers qd={qd} do not label the conserved quantity {phys}')
            break
    if len(mpo.qD) != L + 1 or any(len(mpo.qD[i]) != mpo.A[i].shape[2] for i in range(L)) or len(mpo.qD[L]) != mpo.A[-1].shape[3]:
        fails.append('len(qD[i]) does not match the bond dimensions')
        return fails
    for i, A in enumerate(mpo.A):
        qL = [int(x) for x in mpo.qD[i]]; qR = [int(x) for x in mpo.qD[i + 1]]
        for idx in np.ndindex(*A.shape):
            if not is_structural_zero(A[idx]):
                s, t, a, b = idx
                if qd[s] - qd[t] + qL[a] - qR[b] != 0:
                    fails.append(f'tensor {i} entry {idx} violates the quantum-number rule')
                    return fails
    # dense statement: the operator shifts the total charge by the fixed amount qD[-1] - qD[0]
    shift = int(mpo.qD[-1][0]) - int(mpo.qD[0][0])
    idx = list(itertools.product(range(d), repeat=L))
    tot = [sum(qd[s] for s in st) for st in idx]
    for r in range(len(idx)):
        for c in range(len(idx)):
            if not is_structural_zero(M[r, c]) and tot[r] - tot[c] != shift:
                fails.append(f'dense entry ({r},{c}) connects total charges {tot[c]} -> {tot[r]}, expected shift {shift}')
                return fails
    return fails


def path(eng, acc, task):
    model, L, d = task['model'], task['L'], task['d']
    fails = []
    if model == 'linear_fermionic':
        coeff = [eng.csym(f'f{i}') for i in range(L)]
        inputs = dict(model=model, L=L, d=d, ftype=task['ftype'], params=list(coeff))
        build = lambda: ptn.linear_fermionic_mpo(coeff, task['ftype'])
        ref = lambda: Mo.linear_fermionic(coeff, task['ftype'])
        params = coeff
    else:
        spec = MODELS[model]
        params = [eng.sym(n) for n in spec['params']]
        inputs = dict(model=model, L=L, d=d, params=list(params))
        build = lambda: spec['fn'](L, params, d)
        ref = lambda: spec['ref'](L, params, d)
    try:
        mpo = build()
        M = mpo.as_matrix()
    except Exception as e:
        reraise_internal(e)
        # only the identically-zero operator is excluded: every entry of the textbook matrix vanishes on this path
        if model != 'linear_fermionic':
            Mz = ref()
            if prover.prove(eng, [S(x) for x in Mz.reshape(-1)], rounds=1, acc=acc, label='vc_zero_operator') == 'proved':
                acc.inc('all_zero_paths')
                return
        import traceback
        ln = traceback.extract_tb(e.__traceback__)[-1].lineno
        candidate(eng, acc, task, 'lattice_model', f'lattice:{model}:raises:{type(e).__name__}@{ln}', repr(e), inputs)
        return
    if model != 'linear_fermionic':
        st = [eng.known(S(p) != 0) for p in params]
        eng.mark('some_coupling_zero' if any(s is False for s in st) else 'all_couplings_nonzero')
    if L == 1:
        eng.mark('L1_model')
    Mref = ref()
    n = d ** L
    if M.shape != (n, n):
        fails.append(f'matrix shape {M.shape} != {(n, n)}')
    else:
        goals = [S(M[i, j]) - S(Mref[i, j]) for i in range(n) for j in range(n)]
        res = prover.prove(eng, goals, rounds=1, acc=acc, label='vc_matrix')
        if res != 'proved':
            ivars = [v for v in range(len(VARS)) if VROLE[v] == 'input' and VKIND[v] == 'real']
            res2 = prover.prove_within_tolerance(eng, goals, ivars, acc=acc)
            if res2 != 'proved':
                fails.append('dense matrix differs from the textbook definition')
            else:
                acc.inc('tolerance_route')
        eng.mark('tolerance_route_or_exact')
        if model != 'linear_fermionic':
            herm = [S(M[i, j]) - S(M[j, i]).conjugate() for i in range(n) for j in range(i, n)]
            if prover.prove(eng, herm, rounds=1, acc=acc, label='vc_hermitian') != 'proved':
                fails.append('Hamiltonian is not Hermitian for real parameters')
            eng.mark('hermitian_checked')
        fails += charge_vcs(model, mpo, M, d, L)
    acc.inc('nontrivial_paths')
    if acc.get('#samples') < 3 and L >= 2:
        acc.add('samples', sample(eng, task, dict(bond_dims=mpo.bond_dims, entry_01=repr(M[0, 1]) if n > 1 else None)))
    if fails:
        candidate(eng, acc, task, 'lattice_model', f'lattice:{model}:' + fails[0][:40], '; '.join(fails), inputs)


def validate(seed, tier):
    rng = np.random.default_rng(seed)
    n = 0
    for model in list(MODELS) + ['linear_fermionic']:
        for L in (2, 3):
            d = MODELS[model]['d'] if model in MODELS and MODELS[model]['d'] else (3 if model == 'bose_hubbard' else 2)
            if model == 'linear_fermionic':
                inp = dict(model=model, L=L, d=2, ftype='c', params=[complex(a, b) for a, b in rng.standard_normal((L, 2))])
            else:
                inp = dict(model=model, L=L, d=d, params=[float(x) for x in rng.standard_normal(3)])
            runner.concrete_check('lattice_model', inp)
            n += 1
    return dict(model_instances_checked_concretely=n)


def evidence(tier, seed, total, per_task, val):
    ts = tasks(tier, seed)
    return dict(
        level='other',
        coverage=dict(
            explanation='bounded symbolic execution of the six public Hamiltonian constructors with symbolic real (complex) '
                        'parameters; zero/non-zero coupling patterns are paths (z3 QF_LRA feasibility); per path the dense '
                        'matrix identity, Hermiticity and charge conservation are decided for all parameter values (z3 QF_LRA; '
                        'polynomial normal form, bounded-parameter tolerance query for irrational local operators)',
            functions_encoded=['ising_mpo', 'heisenberg_xxz_mpo', 'heisenberg_xxz_spin1_mpo', 'bose_hubbard_mpo', 'fermi_hubbard_mpo',
                               'linear_fermionic_mpo', '_local_opchains_to_mpo', 'OpGraph.from_automaton', 'OpGraph.from_opchains',
                               'MPO.from_opgraph', 'MPO.as_matrix'],
            bounds=dict(instances=sorted((t['model'], t['L'], t['d']) for t in ts)),
            stubs=[],
            distinct_nontrivial=int(total.get('nontrivial_paths')),
            rule='one case = (model, L, d, zero/non-zero pattern of the parameters); all are non-trivial (matrix VC issued)',
            obligations=int(total.get('vc_goals')),
            vc_results={k: int(v) for k, v in total.c.items() if k.startswith('vc_') and k.split('_')[-1] in ('proved', 'trivial', 'unknown', 'unproved')},
            tolerance_route_paths=int(total.get('tolerance_route')),
            identically_zero_operator_paths_excluded=int(total.get('all_zero_paths')),
            samples=total.l.get('samples', []),
            exhaustive=False,
        ),
        assumptions=IDEALISATIONS[:1] + ['reference = textbook formula (refs/models.py), validated numerically against the unchanged tree each run',
                                        'sqrt(2), sqrt(n) enter as the IEEE doubles the code uses; equality exact or |delta| <= 1e-9 for |parameters| <= 1e3'],
    )


if __name__ == '__main__':
    runner.main('harness.c06')
