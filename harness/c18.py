"""
C18  Bipartite matching is maximum and the derived vertex cover is minimum.

Every input bit of Hopcroft-Karp is read by a branch, so symbolic execution has nothing to abstract: the
exploration IS the exhaustive enumeration of all bipartite graphs within the bound (one path per edge set);
adjacency bits are symbolic 0/1 integers whose branches are decided by z3 (QF_LIA), which only prunes.
A valid matching M and a valid cover C with |C| = |M| certify each other (weak duality / Koenig), so no
brute-force optimum is needed.
"""
import signal
import numpy as np

from harness.common import *
from harness import concrete
from symx import runner
from pytenet.bipartite_graph import BipartiteGraph, HopcroftKarp, minimum_vertex_cover

PID = 'C18'


def tasks(tier, seed):
    ts = []
    sizes = [(a, b) for a in (1, 2, 3) for b in (1, 2, 3)] + [(3, 4), (4, 3), (4, 4)]
    if tier == 'thorough':
        sizes += [(2, 5), (5, 2), (3, 5), (5, 3), (4, 5), (5, 4)]
    for (nu, nv) in sizes:
        ts.append(dict(name=f'adj_{nu}x{nv}', kind='adj', nu=nu, nv=nv, cut=(6 if nu * nv > 9 else None)))
    # edge *lists* (order and duplicates matter for the adjacency construction)
    for k in ((1, 2, 3, 4) if tier == 'quick' else (1, 2, 3, 4, 5)):
        ts.append(dict(name=f'edgelist_3x3_len{k}', kind='list', nu=3, nv=3, k=k, cut=(4 if k >= 3 else None)))
    return ts


def required_marks(tier):
    return ['empty_graph', 'complete_graph', 'perfect_matching', 'cover_uses_both_sides', 'duplicate_edges']


class _Timeout(Exception):
    pass


def _alarm(signum, frame):
    raise _Timeout()


def verify(nu, nv, edges, matching, ucov, vcov):
    fails = []
    es = set(edges)
    if any(e not in es for e in matching):
        fails.append('matching contains a non-edge')
    if len({u for u, _ in matching}) != len(matching) or len({v for _, v in matching}) != len(matching):
        fails.append('matching edges share a vertex')
    if any(not (0 <= u < nu) for u in ucov) or any(not (0 <= v < nv) for v in vcov):
        fails.append('cover vertex out of range')
    if len(set(ucov)) != len(ucov) or len(set(vcov)) != len(vcov):
        fails.append('cover lists a vertex twice')
    if any(u not in ucov and v not in vcov for u, v in es):
        fails.append('cover misses an edge')
    if len(ucov) + len(vcov) != len(matching):
        fails.append(f'|cover| = {len(ucov) + len(vcov)} != |matching| = {len(matching)} (Koenig certificate fails)')
    return fails


def path(eng, acc, task):
    nu, nv = task['nu'], task['nv']
    edges = []
    if task['kind'] == 'adj':
        for u in range(nu):
            for v in range(nv):
                e = eng.sym(f'e{u}{v}', 'int')
                eng.assume(e >= 0); eng.assume(e <= 1)
                if e != 0:
                    edges.append((u, v))
    else:
        for i in range(task['k']):
            edges.append((eng.choose(nu, f'u{i}'), eng.choose(nv, f'v{i}')))
        if len(set(edges)) < len(edges):
            eng.mark('duplicate_edges')
    inputs = dict(nu=nu, nv=nv, edges=[list(e) for e in edges])
    old = signal.signal(signal.SIGALRM, _alarm)
    signal.setitimer(signal.ITIMER_REAL, 20.0)
    try:
        g = BipartiteGraph(nu, nv, edges)
        matching = HopcroftKarp(g)()
        ucov, vcov = minimum_vertex_cover(g)
        fails = verify(nu, nv, edges, matching, ucov, vcov)
    except _Timeout:
        fails = ['did not terminate within 20 s']
    except (Exception, RecursionError) as e:
        reraise_internal(e)
        fails = [f'raised {type(e).__name__}: {e}']
    finally:
        signal.setitimer(signal.ITIMER_REAL, 0)
        signal.signal(signal.SIGALRM, old)
    if not fails:
        ne = len(set(edges))
        if ne == 0:
            eng.mark('empty_graph')
        if ne == nu * nv:
            eng.mark('complete_graph')
        if len(matching) == min(nu, nv):
            eng.mark('perfect_matching')
        if ucov and vcov:
            eng.mark('cover_uses_both_sides')
        if task['kind'] == 'list' or True:
            pass
    if len(set(edges)) >= 2:
        acc.inc('nontrivial_paths')
    acc.inc('vc_concrete_checks', 6)
    if acc.get('#samples') < 3 and len(edges) >= 3:
        acc.add('samples', dict(task=task['name'], edges=inputs['edges'],
                                matching=[list(m) for m in matching] if not fails else None,
                                cover=[list(ucov), list(vcov)] if not fails else None))
    if fails:
        acc.add('candidates', dict(task=task['name'], kind='bipartite', sig='bipartite:' + fails[0][:30], detail='; '.join(fails),
                                   decisions=[], insts=[inputs]))


def validate(seed, tier):
    rng = np.random.default_rng(seed)
    n = 0
    for _ in range(20):
        nu, nv = int(rng.integers(1, 7)), int(rng.integers(1, 7))
        edges = [[int(u), int(v)] for u in range(nu) for v in range(nv) if rng.random() < 0.4]
        runner.concrete_check('bipartite', dict(nu=nu, nv=nv, edges=edges))
        n += 1
    # vertex counts beyond 2^16 on either side (index arithmetic; far outside the exhaustive bound, sampled on the real code)
    for (nu, nv, edges) in ((3, 70000, [(0, 65536), (1, 0)]), (3, 70000, [(0, 65537), (1, 1), (2, 65536), (1, 65536)]),
                            (70000, 3, [(65536, 0), (1, 0), (65537, 1), (0, 2)]), (66000, 66000, [(65536, 0), (65535, 65536), (0, 65537)]),
                            (2, 131073, [(0, 131072), (1, 65536), (0, 1)])):
        runner.concrete_check('bipartite', dict(nu=nu, nv=nv, edges=[list(e) for e in edges]))
        n += 1
    return dict(random_graphs_checked_concretely=n, of_which_with_more_than_65536_vertices_on_a_side=5)


def evidence(tier, seed, total, per_task, val):
    return dict(
        level='exploration',
        coverage=dict(
            explanation='exhaustive exploration of all edge sets within the size bound by re-execution DFS; the adjacency '
                        'bits are symbolic 0/1 integers, branch feasibility by z3 QF_LIA (pruning only); concrete Koenig '
                        'certificate check on every path',
            functions_encoded=['pytenet.bipartite_graph.BipartiteGraph', 'HopcroftKarp.__call__', 'minimum_vertex_cover',
                               '_explore_alternating_paths'],
            bounds=dict(partitions=sorted({(t['nu'], t['nv']) for t in tasks(tier, seed) if t['kind'] == 'adj'}),
                        edge_lists='all ordered lists with duplicates over 3x3, lengths ' + str(sorted(t['k'] for t in tasks(tier, seed) if t['kind'] == 'list')),
                        outside='5x5 exhaustive (2^25 graphs) and random graphs up to 60x60 (sampling is not part of this technique family)'),
            distinct_nontrivial=int(total.get('nontrivial_paths')),
            rule='one case = one edge set (adjacency tasks) or one ordered edge list (list tasks); non-trivial = at least 2 distinct edges',
            samples=total.l.get('samples', []),
            exhaustive=True,
        ),
        assumptions=['termination is checked with a 20 s alarm per graph', 'Koenig/weak duality: |cover| = |matching| with both valid certifies optimality of both'],
    )


if __name__ == '__main__':
    runner.main('harness.c18')
