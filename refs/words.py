"""
Free-algebra semantics of operator chains / graphs / trees / automata, independent of pytenet's as_matrix:
an operator is a dict  word (tuple of operator ids, one per site) -> coefficient.
Works with numeric and symbolic coefficients.
"""
import itertools
import numpy as np


def wadd(d, w, c):
    if w in d:
        d[w] = d[w] + c
    else:
        d[w] = c


def chains_words(chains, L, oid_identity):
    """sum of identity-padded chains; chains: iterable of objects with oids, coeff, istart"""
    out = {}
    for ch in chains:
        oids = [int(o) for o in ch.oids]
        npad = L - ch.istart - len(oids)
        assert npad >= 0
        w = tuple([int(oid_identity)] * ch.istart + oids + [int(oid_identity)] * npad)
        wadd(out, w, ch.coeff)
    return out


def graph_words(g, direction=1, max_len=64):
    """sum over all paths between the terminal nodes of the product of edge coefficients"""
    out = {}
    start = g.nid_terminal[1 - direction]
    end = g.nid_terminal[direction]

    def rec(nid, word, coeff):
        if len(word) > max_len:
            raise RuntimeError('graph path longer than max_len (cycle?)')
        node = g.nodes[nid]
        if not node.eids[direction]:
            if nid != end:
                raise RuntimeError(f'dangling node {nid}')
            wadd(out, word, coeff)
            return
        for eid in node.eids[direction]:
            e = g.edges[eid]
            for oid, c in e.opics:
                rec(e.nids[direction], word + (int(oid),), coeff * c)
    rec(start, (), 1)
    if direction == 0:
        out = {tuple(reversed(w)): c for w, c in out.items()}
    return out


def layer_widths(g):
    """number of nodes at each distance from the start terminal"""
    widths = []
    cur = [g.nid_terminal[0]]
    seen_total = 0
    while cur:
        widths.append(len(cur))
        nxt = []
        for nid in cur:
            for eid in g.nodes[nid].eids[1]:
                t = g.edges[eid].nids[1]
                if t not in nxt:
                    nxt.append(t)
        cur = nxt
        seen_total += 1
        if seen_total > 10000:
            raise RuntimeError('layer walk does not terminate')
    return widths


def tree_words(node, oid_identity=None):
    """words of a subtree: dict word -> coeff (words of different lengths possible)"""
    out = {}
    for edge in node.children:
        if edge.node.is_leaf():
            sub = {(): 1}
        else:
            sub = tree_words(edge.node)
        for w, c in sub.items():
            wadd(out, (int(edge.oid),) + w, edge.coeff * c)
    return out


def trees_words(trees, L, oid_identity):
    out = {}
    for t in trees:
        for w, c in tree_words(t.root).items():
            npad = L - t.istart - len(w)
            assert npad >= 0
            wadd(out, tuple([int(oid_identity)] * t.istart) + w + tuple([int(oid_identity)] * npad), c)
    return out


def words_matrix(words, opmap, d):
    """dense matrix  sum_w coeff_w kron(opmap[w_1], ..., opmap[w_L])  by explicit index loops"""
    if not words:
        return None
    L = len(next(iter(words)))
    n = d ** L
    M = np.empty((n, n), dtype=object)
    idx = list(itertools.product(range(d), repeat=L))
    for r, s in enumerate(idx):
        for c_, t in enumerate(idx):
            tot = 0
            for w, coeff in words.items():
                term = coeff
                for k in range(L):
                    x = opmap[w[k]][s[k], t[k]]
                    if not hasattr(x, 't') and x == 0:
                        term = 0
                        break
                    term = term * x
                tot = tot + term
            M[r, c_] = tot
    return M


def words_diff(a, b):
    """list of coefficient differences over the union of words"""
    return [(w, a.get(w, 0) - b.get(w, 0)) for w in set(a) | set(b)]
