"""
Independent dense oracles (explicit loops; no einsum, no pytenet code).  Work on numeric arrays and on
dtype=object arrays of symbolic scalars alike.
"""
import itertools
import numpy as np


def _matchain(mats):
    M = None
    for T in mats:
        M = T if M is None else M.dot(T)
    return M


def dense_mps(Alist):
    """vector of an MPS given site tensors A[i][s, a, b]; outer bond dimensions must be 1"""
    L = len(Alist)
    d = Alist[0].shape[0]
    out = []
    for phys in itertools.product(range(d), repeat=L):
        M = _matchain([Alist[i][s] for i, s in enumerate(phys)])
        assert M.shape == (1, 1)
        out.append(M[0, 0])
    return out


def dense_mps_open(Alist):
    """like dense_mps but keeps outer bonds: returns dict phys -> matrix"""
    L = len(Alist)
    d = Alist[0].shape[0]
    return {phys: _matchain([Alist[i][s] for i, s in enumerate(phys)]) for phys in itertools.product(range(d), repeat=L)}


def dense_mpo(Wlist):
    """matrix of an MPO given site tensors W[i][s, t, a, b] (outer bonds of dimension 1)"""
    L = len(Wlist)
    d = Wlist[0].shape[0]
    n = d ** L
    M = np.empty((n, n), dtype=object)
    for r, s in enumerate(itertools.product(range(d), repeat=L)):
        for c, t in enumerate(itertools.product(range(d), repeat=L)):
            X = _matchain([Wlist[i][s[i], t[i]] for i in range(L)])
            assert X.shape == (1, 1)
            M[r, c] = X[0, 0]
    return M


def conj(x):
    return x.conjugate() if hasattr(x, 'conjugate') else x
