"""
Independent dense oracles (explicit loops; no einsum, no pytenet code).  Work on numeric arrays and on
dtype=object arrays of symbolic scalars alike.
"""
import itertools
import numpy as np


def _matchain(mats):
    M = None
    for T in mats:
        M = T if M is None else M.dot(T)
    return M


def dense_mps(Alist):
    """vector of an MPS given site tensors A[i][s, a, b]; outer bond dimensions must be 1"""
    L = len(Alist)
    d = Alist[0].shape[0]
    out = []
    for phys in itertools.product(range(d), repeat=L):
        M = _matchain([Alist[i][s] for i, s in enumerate(phys)])
        assert M.shape == (1, 1)
        out.append(M[0, 0])
    return out


def dense_mps_open(Alist):
    """like dense_mps but keeps outer bonds: returns dict phys -> matrix"""
    L = len(Alist)
    d = Alist[0].shape[0]
    return {phys: _matchain([Alist[i][s] for i, s in enumerate(phys)]) for phys in itertools.product(range(d), repeat=L)}


def dense_mpo(Wlist):
    """matrix of an MPO given site tensors W[i][s, t, a, b] (outer bonds of dimension 1)"""
    L = len(Wlist)
    d = Wlist[0].shape[0]
    n = d ** L
    M = np.empty((n, n), dtype=object)
    for r, s in enumerate(itertools.product(range(d), repeat=L)):
        for c, t in enumerate(itertools.product(range(d), repeat=L)):
            X = _matchain([Wlist[i][s[i], t[i]] for i in range(L)])
            assert X.shape == (1, 1)
            M[r, c] = X[0, 0]
    return M


def conj(x):
    return x.conjugate() if hasattr(x, 'conjugate') else x


def mpo_columns(A_list, d, states):
    """
    Columns of the matrix of an MPO (tensors A[i][s_out, s_in, a, b], outer bonds 1) for the given basis states
    (index = sum_i digit_i d^(L-1-i)), by sparse propagation through the chain: {state: {row: entry}}.
    Works on object arrays (symbolic entries); structurally zero entries are skipped.
    """
    L = len(A_list)
    # per site and input digit: list of (s_out, a, b, value) of the structurally non-zero entries
    tabs = []
    for W in A_list:
        tab = {}
        for idx in np.ndindex(*W.shape):
            x = W[idx]
            if hasattr(x, 'is_zero'):
                if x.is_zero():
                    continue
            elif x == 0:
                continue
            s_out, s_in, a, b = idx
            tab.setdefault(s_in, []).append((s_out, a, b, x))
        tabs.append(tab)
    out = {}
    for st in states:
        digits = [(st // d ** (L - 1 - i)) % d for i in range(L)]
        cur = {0: {0: 1}}            # row prefix (as integer) -> {bond index: value}
        for i in range(L):
            nxt = {}
            for pre, vec in cur.items():
                for (s_out, a, b, x) in tabs[i].get(digits[i], ()):
                    if a in vec:
                        tgt = nxt.setdefault(pre * d + s_out, {})
                        t = vec[a] * x
                        tgt[b] = tgt[b] + t if b in tgt else t
            cur = nxt
        col = {}
        for row, vec in cur.items():
            if 0 in vec:
                col[row] = vec[0]
        out[st] = col
    return out
