"""
Textbook definitions of the built-in lattice models and the second-quantised molecular Hamiltonians, written
from the docstrings of pytenet.hamiltonian (not from the repository's test helpers).

Everything works with plain numbers and with symbolic scalars; results are dtype=object matrices
(dict-of-entries internally for the Fock-space operators).
"""
import itertools
import math
from fractions import Fraction
import numpy as np


# ------------------------------------------------------------------------------------------------
# generic helpers

def exact(x):
    """float -> exact Fraction (ints stay ints); leaves symbolic scalars alone"""
    if isinstance(x, (float, np.floating)):
        f = Fraction(float(x))
        return int(f) if f.denominator == 1 else f
    if isinstance(x, (int, np.integer)):
        return int(x)
    return x


def omat(rows):
    a = np.empty((len(rows), len(rows[0])), dtype=object)
    for i, r in enumerate(rows):
        for j, x in enumerate(r):
            a[i, j] = exact(x)
    return a


def embed(L, d, site_ops):
    """kron of single-site matrices (identity elsewhere) by explicit index loops -> dict (r, c) -> value"""
    idx = list(itertools.product(range(d), repeat=L))
    out = {}
    for r, s in enumerate(idx):
        for c, t in enumerate(idx):
            v = 1
            for k in range(L):
                if k in site_ops:
                    x = site_ops[k][s[k], t[k]]
                else:
                    x = 1 if s[k] == t[k] else 0
                if not hasattr(x, 't') and x == 0:
                    v = 0
                    break
                v = v * x
            if hasattr(v, 't') or v != 0:
                out[(r, c)] = v
    return out


class DenseAcc:
    def __init__(self, n):
        self.n = n
        self.e = {}

    def add(self, coeff, entries):
        for k, v in entries.items():
            t = coeff * v
            if k in self.e:
                self.e[k] = self.e[k] + t
            else:
                self.e[k] = t

    def matrix(self):
        M = np.empty((self.n, self.n), dtype=object)
        M.fill(0)
        for (r, c), v in self.e.items():
            M[r, c] = v
        return M


# ------------------------------------------------------------------------------------------------
# spin / boson lattice models

def ising(L, J, h, g):
    """sum_i J Z_i Z_{i+1} + sum_i (h Z_i + g X_i), Pauli matrices"""
    X = omat([[0, 1], [1, 0]]); Z = omat([[1, 0], [0, -1]])
    acc = DenseAcc(2 ** L)
    for i in range(L - 1):
        acc.add(J, embed(L, 2, {i: Z, i + 1: Z}))
    for i in range(L):
        acc.add(h, embed(L, 2, {i: Z}))
        acc.add(g, embed(L, 2, {i: X}))
    return acc.matrix()


def _xxz(L, d, Sx, Sy, Sz, J, D, h):
    acc = DenseAcc(d ** L)
    for i in range(L - 1):
        acc.add(J, embed(L, d, {i: Sx, i + 1: Sx}))
        acc.add(J, embed(L, d, {i: Sy, i + 1: Sy}))
        acc.add(D, embed(L, d, {i: Sz, i + 1: Sz}))
    for i in range(L):
        acc.add(-h, embed(L, d, {i: Sz}))
    return acc.matrix()


def cnum(re, im):
    """exact complex constant usable in object arrays together with symbolic scalars"""
    from symx.poly import Sym, pconst
    return Sym(pconst(exact(re)), pconst(exact(im)))


def heisenberg_xxz(L, J, D, h):
    """sum_i J (Sx Sx + Sy Sy) + D Sz Sz - h sum_i Sz, spin-1/2 operators"""
    half = Fraction(1, 2)
    Sx = omat([[0, half], [half, 0]])
    Sy = np.array([[0, cnum(0, -half)], [cnum(0, half), 0]], dtype=object)
    Sz = omat([[half, 0], [0, -half]])
    return _xxz(L, 2, Sx, Sy, Sz, J, D, h)


def heisenberg_xxz_spin1(L, J, D, h):
    """same with spin-1 operators: S+ = sqrt(2) (|1><0| + |0><-1|) in the basis (m = 1, 0, -1)"""
    s2 = exact(math.sqrt(2.0))
    Sp = omat([[0, s2, 0], [0, 0, s2], [0, 0, 0]])
    Sm = omat([[0, 0, 0], [s2, 0, 0], [0, s2, 0]])
    half = Fraction(1, 2)
    Sx = np.empty((3, 3), dtype=object); Sy = np.empty((3, 3), dtype=object)
    for i in range(3):
        for j in range(3):
            Sx[i, j] = half * (Sp[i, j] + Sm[i, j])
            # Sy = (S+ - S-) / (2i) = -i/2 (S+ - S-)
            Sy[i, j] = cnum(0, -half) * (Sp[i, j] - Sm[i, j])
    Sz = omat([[1, 0, 0], [0, 0, 0], [0, 0, -1]])
    return _xxz(L, 3, Sx, Sy, Sz, J, D, h)


def bose_hubbard(d, L, t, U, mu):
    """-t sum (b^dag_i b_{i+1} + h.c.) + U/2 sum n (n - 1) - mu sum n, local occupancies 0..d-1"""
    bd = np.empty((d, d), dtype=object); bd.fill(0)
    ba = np.empty((d, d), dtype=object); ba.fill(0)
    for n in range(1, d):
        r = exact(math.sqrt(float(n)))
        bd[n, n - 1] = r
        ba[n - 1, n] = r
    num = omat([[n if n == m else 0 for m in range(d)] for n in range(d)])
    inter = omat([[Fraction(n * (n - 1), 2) if n == m else 0 for m in range(d)] for n in range(d)])
    acc = DenseAcc(d ** L)
    for i in range(L - 1):
        acc.add(-t, embed(L, d, {i: bd, i + 1: ba}))
        acc.add(-t, embed(L, d, {i: ba, i + 1: bd}))
    for i in range(L):
        acc.add(-mu, embed(L, d, {i: num}))
        acc.add(U, embed(L, d, {i: inter}))
    return acc.matrix()


# ------------------------------------------------------------------------------------------------
# Fock space (occupation-number basis, explicit fermionic signs)
#
# modes 0..M-1; basis state |n_0 ... n_{M-1}> has index sum_i n_i 2^(M-1-i) (mode 0 most significant, as in a
# Kronecker product with site 0 first).  Jordan-Wigner convention: a_i carries the parity of the modes j > i.

def _apply(M, op, i, state):
    bit = 1 << (M - 1 - i)
    occ = bool(state & bit)
    if op == 'c':
        if occ:
            return None
        new = state | bit
    else:
        if not occ:
            return None
        new = state & ~bit
    sign = -1 if bin(state & (bit - 1)).count('1') % 2 else 1
    return sign, new


def fock_string(M, ops):
    """matrix entries of the operator string ops = [(kind, mode), ...] (leftmost factor first) -> dict (r, c) -> +-1"""
    out = {}
    for state in range(2 ** M):
        s = state; sign = 1
        ok = True
        for kind, i in reversed(ops):
            r = _apply(M, kind, i, s)
            if r is None:
                ok = False
                break
            sign *= r[0]; s = r[1]
        if ok:
            out[(s, state)] = sign
    return out


def linear_fermionic(coeff, ftype):
    """sum_i coeff_i a^dag_i  (ftype 'c') or sum_i coeff_i a_i (ftype 'a')"""
    L = len(coeff)
    kind = 'c' if ftype in ('c', 'create', 'creation') else 'a'
    acc = DenseAcc(2 ** L)
    for i in range(L):
        acc.add(coeff[i], fock_string(L, [(kind, i)]))
    return acc.matrix()


def fermi_hubbard(L, t, U, mu):
    """-t sum_{i,sigma} (c^dag_{i,sigma} c_{i+1,sigma} + h.c.) + U sum_i (n_up - 1/2)(n_dn - 1/2) - mu sum_i (n_up + n_dn);
    local basis index 2 n_up + n_dn, i.e. mode 2i = (i, up), mode 2i+1 = (i, down)"""
    M = 2 * L
    acc = DenseAcc(2 ** M)
    for i in range(L - 1):
        for sp in (0, 1):
            a, b = 2 * i + sp, 2 * (i + 1) + sp
            acc.add(-t, fock_string(M, [('c', a), ('a', b)]))
            acc.add(-t, fock_string(M, [('c', b), ('a', a)]))
    ident = {(s, s): 1 for s in range(2 ** M)}
    for i in range(L):
        up, dn = 2 * i, 2 * i + 1
        nup = fock_string(M, [('c', up), ('a', up)])
        ndn = fock_string(M, [('c', dn), ('a', dn)])
        nn = fock_string(M, [('c', up), ('a', up), ('c', dn), ('a', dn)])
        # (n_up - 1/2)(n_dn - 1/2) = n_up n_dn - n_up/2 - n_dn/2 + 1/4
        acc.add(U, nn)
        acc.add(U * Fraction(-1, 2), nup)
        acc.add(U * Fraction(-1, 2), ndn)
        acc.add(U * Fraction(1, 4), ident)
        acc.add(-mu, nup)
        acc.add(-mu, ndn)
    return acc.matrix()


def molecular(tkin, vint):
    """sum_{ij} t_ij a^dag_i a_j + 1/2 sum_{ijkl} v_ijkl a^dag_i a^dag_j a_l a_k"""
    L = len(tkin)
    acc = DenseAcc(2 ** L)
    for i in range(L):
        for j in range(L):
            acc.add(tkin[i][j], fock_string(L, [('c', i), ('a', j)]))
    half = Fraction(1, 2)
    for i, j, k, l in itertools.product(range(L), repeat=4):
        if i == j or k == l:
            continue
        acc.add(vint[i][j][k][l] * half, fock_string(L, [('c', i), ('c', j), ('a', l), ('a', k)]))
    return acc.matrix()


def spin_molecular(tkin, vint):
    """sum_{ij,s} t_ij a^dag_{is} a_{js} + 1/2 sum_{ijkl,s,t} v_ijkl a^dag_{is} a^dag_{jt} a_{lt} a_{ks};
    mode 2i + s for spatial orbital i and spin s"""
    L = len(tkin)
    M = 2 * L
    acc = DenseAcc(2 ** M)
    for i in range(L):
        for j in range(L):
            for s in (0, 1):
                acc.add(tkin[i][j], fock_string(M, [('c', 2 * i + s), ('a', 2 * j + s)]))
    half = Fraction(1, 2)
    for i, j, k, l in itertools.product(range(L), repeat=4):
        for s in (0, 1):
            for t in (0, 1):
                ops = [('c', 2 * i + s), ('c', 2 * j + t), ('a', 2 * l + t), ('a', 2 * k + s)]
                if ops[0][1] == ops[1][1] or ops[2][1] == ops[3][1]:
                    continue
                acc.add(vint[i][j][k][l] * half, fock_string(M, ops))
    return acc.matrix()


# ------------------------------------------------------------------------------------------------
# physical quantum numbers per local basis state (for the conservation-law check)

def phys_qnums(model, d=None):
    if model == 'ising':
        return [(0,), (0,)]                      # no conserved charge
    if model == 'heisenberg_xxz':
        return [(1,), (-1,)]                     # 2 Sz
    if model == 'heisenberg_xxz_spin1':
        return [(1,), (0,), (-1,)]
    if model == 'bose_hubbard':
        return [(n,) for n in range(d)]
    if model in ('fermi_hubbard', 'spin_molecular'):
        return [(0, 0), (1, -1), (1, 1), (2, 0)]  # (particle number, spin) for |0>, |dn>, |up>, |up dn>
    if model in ('linear_fermionic', 'molecular'):
        return [(0,), (1,)]
    raise KeyError(model)


# ------------------------------------------------------------------------------------------------
# selected columns of the molecular operators (for sizes whose full dense matrix is out of reach)

def _column(M, terms, state):
    """terms: iterable of (coeff, ops); returns dict row -> coefficient of the operator applied to |state>"""
    out = {}
    for coeff, ops in terms:
        s = state; sign = 1
        for kind, i in reversed(ops):
            r = _apply(M, kind, i, s)
            if r is None:
                break
            sign *= r[0]; s = r[1]
        else:
            t = coeff * sign
            out[s] = out[s] + t if s in out else t
    return out


def molecular_terms(tkin, vint):
    L = len(tkin)
    half = Fraction(1, 2)
    for i in range(L):
        for j in range(L):
            yield tkin[i][j], [('c', i), ('a', j)]
    for i, j, k, l in itertools.product(range(L), repeat=4):
        if i == j or k == l:
            continue
        yield vint[i][j][k][l] * half, [('c', i), ('c', j), ('a', l), ('a', k)]


def spin_molecular_terms(tkin, vint):
    L = len(tkin)
    half = Fraction(1, 2)
    for i in range(L):
        for j in range(L):
            for s in (0, 1):
                yield tkin[i][j], [('c', 2 * i + s), ('a', 2 * j + s)]
    for i, j, k, l in itertools.product(range(L), repeat=4):
        for s in (0, 1):
            for t in (0, 1):
                ops = [('c', 2 * i + s), ('c', 2 * j + t), ('a', 2 * l + t), ('a', 2 * k + s)]
                if ops[0][1] == ops[1][1] or ops[2][1] == ops[3][1]:
                    continue
                yield vint[i][j][k][l] * half, ops


def operator_columns(nmodes, terms, states):
    """{state: {row: coefficient}} of sum_terms coeff * string applied to the given occupation-number basis states"""
    terms = [(c, ops) for c, ops in terms if not (hasattr(c, 'is_zero') and c.is_zero()) and not (not hasattr(c, 'is_zero') and c == 0)]
    return {st: _column(nmodes, terms, st) for st in states}


def states_up_to(nmodes, nmax):
    """all occupation-number basis states with at most nmax particles"""
    return [s for s in range(2 ** nmodes) if bin(s).count('1') <= nmax]
